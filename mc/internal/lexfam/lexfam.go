// Package lexfam enumerates the lexer-definition families of DESIGN.md §4 (deterministic lists).
package lexfam

import (
	"fmt"

	m "verif/mc/internal/lexmodel"
)

type Family struct {
	Name     string
	Defs     []m.Def
	Alphabet []string // input characters (strings so that multi-byte runes and raw bytes fit)
	MaxLen   int
	Inputs   []string // non-nil: this explicit input list instead of all strings over the alphabet
}

func r(name, pat string) m.Rule { return m.Rule{Name: name, Pattern: pat} }
func push(name, pat, st string) m.Rule {
	return m.Rule{Name: name, Pattern: pat, Act: m.Push, State: st}
}
func pop(name, pat string) m.Rule { return m.Rule{Name: name, Pattern: pat, Act: m.Pop} }
func inc(st string) m.Rule        { return m.Rule{Act: m.Include, State: st} }
func ret() m.Rule                 { return m.Rule{Act: m.Return, Name: "returnToParent"} }
func seqs(menu []m.Rule, maxLen int) [][]m.Rule {
	var out [][]m.Rule
	var rec func(cur []m.Rule, used []bool)
	rec = func(cur []m.Rule, used []bool) {
		if len(cur) > 0 {
			out = append(out, append([]m.Rule{}, cur...))
		}
		if len(cur) == maxLen {
			return
		}
		for i, it := range menu {
			if used[i] {
				continue
			}
			used[i] = true
			rec(append(cur, it), used)
			used[i] = false
		}
	}
	rec(nil, make([]bool, len(menu)))
	return out
}

func lenFor(quick bool, q, t int) int {
	if quick {
		return q
	}
	return t
}

// Order: one state, ordered pairs/triples of overlapping patterns.
func Order(quick bool) Family {
	pats := []string{`a`, `b`, `ab`, `a|ab`, `ab|a`, `a+`, `[ab]`, `.`, `\.`, `\n`, `é`, `\ba`, `^a`, `a\b`, `a$`, `a*`, ``, `\Ba`, `(?s:.)`, `[^a]`}
	var defs []m.Def
	name := func(i int) string { return fmt.Sprintf("R%d", i) }
	for i, p := range pats {
		defs = append(defs, m.Def{"Root": {r(name(i), p)}})
		for j, q := range pats {
			if i == j {
				continue
			}
			defs = append(defs, m.Def{"Root": {r(name(i), p), r(name(j), q)}})
		}
	}
	// elided (lower-case) rules, including nullable ones that match the empty string
	for _, q := range []string{`a*`, ``, `b?`, `\s*`, `a`, `[ab]+`} {
		for i, p := range []string{`a`, `ab`, `.`, `b+`} {
			defs = append(defs, m.Def{"Root": {r(name(i), p), r("ws", q)}})
			defs = append(defs, m.Def{"Root": {r("ws", q), r(name(i), p)}})
			defs = append(defs, m.Def{"Root": {r(name(i), p), r("ws", q), r("Any", `(?s:.)`)}})
		}
	}
	trip := pats
	if quick {
		trip = []string{`a`, `ab`, `a|ab`, `.`, `\ba`, `^a`, `a$`, `a*`}
	}
	for i, p := range trip {
		for j, q := range trip {
			for k, s := range trip {
				if i == j || j == k || i == k {
					continue
				}
				defs = append(defs, m.Def{"Root": {r("X"+name(i), p), r("Y"+name(j), q), r("Z"+name(k), s)}})
			}
		}
	}
	return Family{Name: "order", Defs: defs, Alphabet: []string{"a", "b", ".", "\n", "é"}, MaxLen: lenFor(quick, 4, 5)}
}

// Names: elision by the first letter of the rule name, shared names across states.
func Names(quick bool) Family {
	names := []string{"A", "a", "Éa", "éa", "_x", "Z9", "z"}
	var defs []m.Def
	for _, n1 := range names {
		for _, n2 := range names {
			if n1 == n2 {
				continue
			}
			defs = append(defs, m.Def{"Root": {r(n1, `a`), r(n2, `b|é`)}})
			defs = append(defs, m.Def{"Root": {r(n1, `a`), push("Open", `\(`, "S")}, "S": {r(n1, `a`), r(n2, `b`), pop("Close", `\)`)}})
			defs = append(defs, m.Def{"Root": {r(n1, `a+`), push(n2, `\(`, "S")}, "S": {pop(n1+"x", `\)`), r(n2+"y", `[ab]`)}})
		}
	}
	// names that collide with something built in: a rule called EOF (the symbol table starts out with EOF),
	// a state whose name is the empty string
	defs = append(defs,
		m.Def{"Root": {r("EOF", `a`), r("B", `b|é`), r("Open", `\(`)}},
		m.Def{"Root": {r("A", `a`), r("EOF", `b+`), push("Open", `\(`, "S")}, "S": {r("EOF", `b+`), r("A", `a`), pop("Close", `\)`)}},
		m.Def{"Root": {r("A", `a`), push("Open", `\(`, "")}, "": {r("B", `b`), pop("Close", `\)`)}},
		m.Def{"Root": {r("A", `a`), inc(""), push("Open", `\(`, "")}, "": {r("B", `b`), pop("Close", `\)`)}},
		// a rule with an empty pattern and no action (it can only ever fail, but it is a rule, not a Return())
		m.Def{"Root": {r("A", `a`), push("Open", `\(`, "S"), r("Garbage", ``)}, "S": {r("B", `b`), pop("Close", `\)`), r("Garbage", ``)}},
		// state names that differ only in case
		m.Def{"Root": {r("A", `a`), push("Open", `\(`, "S"), push("Bra", `é`, "s")}, "S": {r("B", `b`), pop("Close", `\)`)}, "s": {r("C", `b`), r("D", `a`), pop("Ket", `\)`)}},
	)
	return Family{Name: "names", Defs: defs, Alphabet: []string{"a", "b", "(", ")", "é"}, MaxLen: lenFor(quick, 4, 5)}
}

// Stack: every placement of Push / Pop / Return in Root and two sub-states.
func Stack(quick bool) Family {
	rootMenu := []m.Rule{r("A", `a`), push("Open", `\(`, "S1"), pop("Close", `\)`), ret(), r("Any", `.`), r("ws", `b`), push("OpenQ", `\(?`, "S1")}
	s1Menu := []m.Rule{r("B", `b`), push("Open", `\(`, "S1"), push("Open2", `<`, "S2"), pop("Close", `\)`), ret(), r("A", `a`), pop("cl", `>`), pop("CloseQ", `\)?`), pop("bq", `b*`)}
	s2s := [][]m.Rule{{r("B", `b`), pop("Close2", `>`)}, {ret()}, {pop("Close2", `>`), ret()}, {r("Inner", `a`), ret()}}
	n := lenFor(quick, 2, 3)
	var defs []m.Def
	for _, root := range seqs(rootMenu, n) {
		for _, s1 := range seqs(s1Menu, n) {
			for _, s2 := range s2s {
				usesS2 := false
				for _, x := range s1 {
					if x.State == "S2" {
						usesS2 = true
					}
				}
				if !usesS2 && len(s2) > 0 && &s2[0] != &s2s[0][0] {
					continue // S2 unreachable: one representative is enough
				}
				defs = append(defs, m.Def{"Root": root, "S1": s1, "S2": s2})
			}
		}
	}
	return Family{Name: "stack", Defs: defs, Alphabet: []string{"a", "b", "(", ")", "<", ">"}, MaxLen: lenFor(quick, 4, 5)}
}

// Includes: include at every index, nested includes, included rules with actions.
func Includes(quick bool) Family {
	rootMenu := []m.Rule{r("A", `a`), r("AB", `ab`), inc("S1"), r("Any", `.`), push("Open", `\(`, "S3")}
	s1Menu := []m.Rule{r("B", `b`), r("Ap", `a+`), inc("S2"), pop("Close", `\)`), r("skip", `a`)}
	s2s := [][]m.Rule{{r("C", `[ab]`)}, {r("c", `a`)}, {r("C", `[ab]`), push("Open", `\(`, "S3")}}
	s3s := [][]m.Rule{{inc("S1"), pop("Close", `\)`)}, {pop("Close", `\)`), inc("S2")}, {inc("S1")}}
	n := lenFor(quick, 2, 3)
	var defs []m.Def
	for _, root := range seqs(rootMenu, n) {
		for _, s1 := range seqs(s1Menu, n) {
			for i, s2 := range s2s {
				for j, s3 := range s3s {
					if quick && (i+j)%2 == 1 {
						continue
					}
					defs = append(defs, m.Def{"Root": root, "S1": s1, "S2": s2, "S3": s3})
				}
			}
		}
	}
	// a Return() that reaches a state only through Include, as the last rule and with rules after it
	retState := []m.Rule{r("U", `b`), ret()}
	for _, root := range seqs(rootMenu, n) {
		for _, s3 := range [][]m.Rule{{inc("R")}, {inc("R"), r("Junk", `[ab]+`)}, {r("C", `a`), inc("R")}, {inc("S1"), inc("R")}} {
			defs = append(defs, m.Def{"Root": root, "S1": {r("B", `b`), pop("Close", `\)`)}, "S3": s3, "R": retState})
		}
	}
	return Family{Name: "include", Defs: defs, Alphabet: []string{"a", "b", "(", ")"}, MaxLen: lenFor(quick, 4, 6)}
}

// Backrefs: entering rules with 0/1/2 groups, body rules referring to them.
func Backrefs(quick bool) Family {
	enters := []string{`(a)`, `(a)(b)`, `a`, `(a)|b`, `(\.)`, `(\()`, `(a*)b`, `(a|\.)(b?)`, `(a)?(b)`, `(?:(\.)|(a))(b)?`}
	bodies := []string{`\1`, `\2`, `x\1`, `\1\1`, `\\1`, `\\\1`, `\0`, `\1|x`, `\1\\2`, `\\1\2`, `\11`, `\21?`}
	var defs []m.Def
	for _, e := range enters {
		for i, b1 := range bodies {
			defs = append(defs, m.Def{
				"Root": {push("Enter", e, "S"), r("Any", `.`)},
				"S":    {r("Ref", b1), pop("End", `!`), r("Other", `(?s:.)`)},
			})
			defs = append(defs, m.Def{
				"Root": {push("Enter", e, "S"), r("Any", `.`)},
				"S":    {pop("End", `!`), r("Ref", b1), push("Again", `x(.)`, "S"), r("Other", `(?s:.)`)},
			})
			for j, b2 := range bodies {
				if i >= j || (quick && (i+j)%3 != 0) {
					continue
				}
				defs = append(defs, m.Def{
					"Root": {push("Enter", e, "S"), r("Any", `.`)},
					"S":    {r("RefA", b1), r("RefB", b2), pop("End", `!`), r("Other", `(?s:.)`)},
				})
			}
		}
	}
	// back-references combined with nested states that Return() / Pop() back into the referring state
	for _, e := range []string{`(a)`, `(a|b)`, `(\.)x?`} {
		for _, b := range []string{`\1`, `\1\1`, `!\1`} {
			for _, inner := range [][]m.Rule{
				{r("In", `b`), ret()},
				{ret()},
				{r("In", `x`), pop("Out", `\.`)},
				{push("Deeper", `\((.)`, "S"), ret()},
			} {
				defs = append(defs, m.Def{
					"Root": {push("Enter", e, "S"), r("Any", `(?s:.)`)},
					"S":    {push("Sub", `x`, "T"), r("Ref", b), pop("End", `!`), r("Other", `(?s:.)`)},
					"T":    inner,
				})
				defs = append(defs, m.Def{
					"Root": {push("Enter", e, "S"), r("Any", `(?s:.)`)},
					"S":    {r("Ref", b), push("Sub", `x`, "T"), pop("End", `!`)},
					"T":    inner,
				})
			}
		}
	}
	// the back-reference rule reaches the pushed state only through an Include
	for _, e := range []string{`(a)`, `(a|b)`, `(\.)x?`} {
		for _, b := range []string{`\1`, `\1\1`, `!\1`} {
			defs = append(defs, m.Def{
				"Root": {push("Enter", e, "S"), r("Any", `(?s:.)`)},
				"S":    {inc("Refs"), pop("End", `!`), r("Other", `(?s:.)`)},
				"Refs": {r("Ref", b)},
			})
			defs = append(defs, m.Def{
				"Root": {push("Enter", e, "S"), r("Any", `(?s:.)`)},
				"S":    {pop("End", `!`), inc("Mid"), r("Other", `(?s:.)`)},
				"Mid":  {inc("Refs")},
				"Refs": {r("Ref", b), r("X", `x`)},
			})
		}
	}
	return Family{Name: "backref", Defs: defs, Alphabet: []string{"a", "b", ".", "(", "!", "\\", "1", "x"}, MaxLen: lenFor(quick, 4, 5)}
}

// BackrefNested: a state entered with captures that runs nested capturing Push/Pop pairs and then
// evaluates its own back-reference again (inputs long enough to get there and back).
func BackrefNested(quick bool) Family {
	var defs []m.Def
	for _, enter := range []string{`(a)`, `(a)(x?)`, `(a|\.)`} {
		for _, inner := range []string{`x(.)`, `x(.)(.)`, `x`} {
			for _, ref := range []string{`\1`, `\1\1`, `e\1`} {
				defs = append(defs, m.Def{
					"Root": {push("Enter", enter, "S"), r("Any", `(?s:.)`)},
					"S":    {pop("End", `!`), r("Ref", ref), push("Again", inner, "S"), r("Other", `(?s:.)`)},
				})
				defs = append(defs, m.Def{
					"Root": {push("Enter", enter, "S"), r("Any", `(?s:.)`)},
					"S":    {r("Ref", ref), push("Sub", inner, "T"), pop("End", `!`), r("Other", `(?s:.)`)},
					"T":    {pop("Back", `!`), push("Deeper", `(x)`, "T"), r("TAny", `(?s:.)`)},
				})
			}
		}
	}
	return Family{Name: "backref-nested", Defs: defs, Alphabet: []string{"a", "x", ".", "!", "e"}, MaxLen: lenFor(quick, 6, 7)}
}

// Positions: rules whose matches span newlines and multi-byte runes (C04).
func Positions(quick bool) Family {
	menu := []m.Rule{r("NL", `\n`), r("Line", `[^\n]+`), r("Any", `(?s:.)`), r("Two", `(?s:..)`), r("CRLF", `\r\n`), r("Rune", `é|日`), r("ws", `[ \n]+`), r("Word", `[a日]+`), r("Cr", `\r`)}
	var defs []m.Def
	for _, s := range seqs(menu, lenFor(quick, 2, 3)) {
		defs = append(defs, m.Def{"Root": s})
	}
	return Family{Name: "positions", Defs: defs, Alphabet: []string{"a", "\n", "\r", "é", "日", " ", "\xff", "😀", "\xc3"}, MaxLen: lenFor(quick, 4, 5)}
}

// JSONEscapes: patterns with characters that JSON / HTML-safe JSON escapes (C16).
func JSONEscapes(quick bool) Family {
	pats := []string{`"`, `\\`, `\\"`, `<`, `&`, `>`, `é`, `\x{1F600}`, `[😀-🙏]+`, `𝐀+|😀`, `[<&>]+`, `"[^"]*"`, `\"`, `\x26`, " ", `'`, `\/`}
	var defs []m.Def
	for i, p := range pats {
		for j, q := range pats {
			if i == j {
				continue
			}
			defs = append(defs, m.Def{"Root": {r("P", p), push("Q", q, "S"), r("Any", `.`)}, "S": {pop("End", p), r("In", `(?s:.)`)}})
			if i < 3 {
				// non-ASCII (also astral) rule and state names
				defs = append(defs, m.Def{"Root": {r("P😀", p), push("Qé", q, "S𝐀"), r("Any", `.`)}, "S𝐀": {pop("End", p), r("In", `(?s:.)`)}})
			}
		}
	}
	return Family{Name: "json-escapes", Defs: defs, Alphabet: []string{`"`, `\`, "<", "&", "é", "😀", "a", " "}, MaxLen: lenFor(quick, 3, 4)}
}

// ErrSample: long unmatched remainders (the "invalid input text" error quotes a sample of them) with
// multi-byte and truncated runes around the sample boundary.
func ErrSample(quick bool) Family {
	defs := []m.Def{
		{"Root": {r("A", `a`)}},
		{"Root": {r("A", `a`), r("ws", ` +`)}},
		{"Root": {push("Open", `\(`, "S"), r("A", `a`)}, "S": {pop("Close", `\)`), r("B", `b`)}},
	}
	var ins []string
	tails := []string{"€", "\xe2\x82", "\xff", "é", "日本", ""}
	for n := 0; n <= 24; n++ {
		for _, t := range tails {
			for _, mm := range []int{0, 1, 2, 17} {
				for _, pre := range []string{"", "a", "(b"} {
					ins = append(ins, pre+repeat("#", n)+t+repeat("#", mm))
					ins = append(ins, pre+repeat("é", n)+t+repeat("é", mm))
				}
			}
		}
	}
	return Family{Name: "errsample", Defs: defs, Alphabet: []string{"#"}, MaxLen: 1, Inputs: ins}
}

func repeat(s string, n int) string {
	out := ""
	for i := 0; i < n; i++ {
		out += s
	}
	return out
}

func All(quick bool) []Family {
	return []Family{Order(quick), Names(quick), Stack(quick), Includes(quick), Backrefs(quick), Positions(quick), JSONEscapes(quick), ErrSample(quick), BackrefNested(quick)}
}

// Inputs enumerates every string over the alphabet up to maxLen.
func Inputs(alphabet []string, maxLen int) []string {
	out := []string{""}
	prev := []string{""}
	for l := 1; l <= maxLen; l++ {
		var next []string
		for _, p := range prev {
			for _, c := range alphabet {
				next = append(next, p+c)
			}
		}
		out = append(out, next...)
		prev = next
	}
	return out
}
