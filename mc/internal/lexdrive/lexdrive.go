// Package lexdrive drives a lexer.Definition one Next call at a time under recover and records
// what the properties C03/C04/C05/C07/C16 observe.
package lexdrive

import (
	"fmt"
	"strings"
	"unicode/utf8"

	"github.com/alecthomas/participle/v2/lexer"

	"verif/mc/internal/hx"
)

// runImpl drives the real lexer token by token under recover.
type Run struct {
	Toks     []lexer.Token // non-EOF tokens
	EOF      *lexer.Token
	Err      error
	Panicked string
	Extra    string // description of a C07 violation found while driving
}

func Drive(def lexer.Definition, filename, in string, afterCalls int) Run {
	var r Run
	var lx lexer.Lexer
	pan, msg := hx.Guard(func() {
		var err error
		if sd, ok := def.(lexer.StringDefinition); ok {
			lx, err = sd.LexString(filename, in)
		} else {
			lx, err = def.Lex(filename, strings.NewReader(in))
		}
		if err != nil {
			r.Err = err
		}
	})
	if pan {
		r.Panicked = "Lex: " + msg
		return r
	}
	if r.Err != nil {
		return r
	}
	limit := len(in) + 2
	for i := 0; ; i++ {
		var t lexer.Token
		var err error
		pan, msg := hx.Guard(func() { t, err = lx.Next() })
		if pan {
			r.Panicked = fmt.Sprintf("Next #%d: %s", i, msg)
			return r
		}
		if err != nil {
			r.Err = err
			// any number of further calls must return without panicking
			for k := 0; k < afterCalls; k++ {
				pan, msg := hx.Guard(func() { _, _ = lx.Next() })
				if pan {
					r.Panicked = fmt.Sprintf("Next #%d after error: %s", k+1, msg)
					return r
				}
			}
			return r
		}
		if t.EOF() {
			tt := t
			r.EOF = &tt
			for k := 0; k < afterCalls; k++ {
				var t2 lexer.Token
				var err2 error
				pan, msg := hx.Guard(func() { t2, err2 = lx.Next() })
				if pan {
					r.Panicked = fmt.Sprintf("Next #%d after EOF: %s", k+1, msg)
					return r
				}
				if err2 != nil || !t2.EOF() || t2.Pos != t.Pos {
					r.Extra = fmt.Sprintf("call %d after EOF returned (%#v, %v), expected EOF at %v", k+1, t2, err2, t.Pos)
					return r
				}
			}
			return r
		}
		if t.Value == "" {
			r.Extra = fmt.Sprintf("empty non-EOF token %#v", t)
			return r
		}
		r.Toks = append(r.Toks, t)
		if i > limit {
			r.Extra = fmt.Sprintf("more than len(input)=%d tokens without EOF", len(in))
			return r
		}
	}
}

// posAt recomputes line/column of a byte offset from the text alone.
func PosAt(in string, off int) (line, col int) {
	line = 1 + strings.Count(in[:off], "\n")
	ls := strings.LastIndex(in[:off], "\n") + 1
	col = 1 + utf8.RuneCountInString(in[ls:off])
	return
}

func ErrOffset(err error) (int, bool) {
	if le, ok := err.(*lexer.Error); ok {
		return le.Pos.Offset, true
	}
	type posErr interface{ Position() lexer.Position }
	if pe, ok := err.(posErr); ok {
		return pe.Position().Offset, true
	}
	return 0, false
}

// checkLossless checks C04's invariants on a successful lex.
func CheckLossless(in, filename string, r Run, noElided bool, skipsText bool) string {
	prevEnd := 0
	var sb strings.Builder
	all := append(append([]lexer.Token{}, r.Toks...), *r.EOF)
	for i, t := range all {
		off := t.Pos.Offset
		if off < prevEnd || off > len(in) {
			return fmt.Sprintf("token %d %#v: offset %d overlaps previous token end %d or is out of range", i, t, off, prevEnd)
		}
		if !t.EOF() {
			if off+len(t.Value) > len(in) || in[off:off+len(t.Value)] != t.Value {
				return fmt.Sprintf("token %d %#v: value is not the input text at its offset", i, t)
			}
			if i > 0 && off == all[i-1].Pos.Offset {
				return fmt.Sprintf("token %d %#v: offset not strictly increasing", i, t)
			}
			prevEnd = off + len(t.Value)
			sb.WriteString(t.Value)
		} else if off != len(in) {
			return fmt.Sprintf("EOF at offset %d, expected %d", off, len(in))
		}
		line, col := PosAt(in, off)
		if t.Pos.Line != line || t.Pos.Column != col {
			return fmt.Sprintf("token %d %#v: line:col %d:%d, expected %d:%d for offset %d", i, t, t.Pos.Line, t.Pos.Column, line, col, off)
		}
		if t.Pos.Filename != filename {
			return fmt.Sprintf("token %d %#v: filename %q, expected %q", i, t, t.Pos.Filename, filename)
		}
	}
	if noElided && !skipsText && sb.String() != in {
		return fmt.Sprintf("concatenated token values %q != input", sb.String())
	}
	return ""
}
