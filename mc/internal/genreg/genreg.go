// Package genreg is the registry the generated lexers (emitted at check time by the real
// `participle gen lexer` code path) register themselves in.
package genreg

import "github.com/alecthomas/participle/v2/lexer"

var Defs = map[string]lexer.Definition{}

func Register(id string, d lexer.Definition) { Defs[id] = d }
