// Package scen holds the concurrent-use scenarios of the C09 check. It is shared by the schedule
// explorer (instrumented build, cooperative scheduler) and the free-running race-detector pass, so
// it must not import the scheduler.
package scen

import (
	"encoding/json"
	"errors"
	"fmt"
	"io"
	"strings"

	"github.com/alecthomas/participle/v2"
	"github.com/alecthomas/participle/v2/ebnf"
	"github.com/alecthomas/participle/v2/lexer"
)

// ---- a back-reference lexer (heredocs) and a grammar with backtracking, sub-productions, mappers

func HeredocRules() lexer.Rules {
	return lexer.Rules{
		"Root": {
			{Name: "Ident", Pattern: `[a-z]+`},
			{Name: "Int", Pattern: `[0-9]+`},
			{Name: "Eq", Pattern: `=`},
			{Name: "Semi", Pattern: `;`},
			{Name: "Bang", Pattern: `!`},
			{Name: "Space", Pattern: `[ \n]+`},
			{Name: "HereOpen", Pattern: `<<([A-Z])`, Action: lexer.Push("Here")},
			{Name: "Alt", Pattern: `<-([A-Z])([A-Z])`, Action: lexer.Push("Here")},
			{Name: "Bare", Pattern: `<=`, Action: lexer.Push("Here")}, // no group: \1 cannot be expanded in Here
		},
		"Here": {
			{Name: "HereEnd", Pattern: `\1`, Action: lexer.Pop()},
			{Name: "HereText", Pattern: `[^A-Z]+|[A-Z]`},
		},
	}
}

type Doc struct {
	Tokens []lexer.Token
	Items  []*Item `@@*`
}
type Item struct {
	Tokens []lexer.Token
	Key    string `@Ident "="`
	Val    Val    `@@ ";"`
}

// Val is a union (sealed interface) so that the grammar also has a union production.
type Val interface{ val() }

type Pair struct {
	A string `@Ident`
	B string `@Ident "!"`
}
type Num struct {
	Num string `@Int`
}
type Here struct {
	Here []string `( HereOpen | Alt ) @HereText* HereEnd`
}
type Word struct {
	Ident string `@Ident`
}

// Not fails with the negation's own error when a ";" follows the "!".
type Not struct {
	Not string `"!" @~";"`
}

// Sig is a user-implemented member of the union: an optional "!" and a number. Like much hand-written
// code it notes the sign on its receiver before it knows whether a number follows (the receiver of a
// NextMatch belongs to nobody afterwards).
type Sig struct {
	Neg    bool
	Digits string
}

func (s *Sig) Parse(lex *lexer.PeekingLexer) error {
	ahead := *lex
	t := ahead.Next()
	if t.Value == "!" {
		s.Neg = true
		t = ahead.Next()
	}
	if len(t.Value) == 0 || t.Value[0] != '#' { // Int tokens arrive mapped as "#<digits>%"
		return participle.NextMatch
	}
	s.Digits += t.Value
	*lex = ahead
	return nil
}

func (Sig) val() {}

func (Pair) val() {}
func (Num) val()  {}
func (Here) val() {}
func (Word) val() {}
func (Not) val()  {}

// Yield is called by the slow readers before every Read; the schedule explorer makes it a scheduling
// point, the race pass runtime.Gosched.
var Yield = func() {}

// slowReader is an io.Reader that is nothing else (no Len, no WriteTo): 16 bytes per Read, a scheduling
// point before each, and optionally an error instead of the end of the text.
type slowReader struct {
	s    string
	fail error
}

func (r *slowReader) Read(p []byte) (int, error) {
	Yield()
	if len(r.s) == 0 {
		if r.fail != nil {
			return 0, r.fail
		}
		return 0, io.EOF
	}
	n := 16
	if n > len(r.s) {
		n = len(r.s)
	}
	n = copy(p, r.s[:n])
	r.s = r.s[n:]
	return n, nil
}

var errReader = errors.New("reader broke")

// KW is a grammar with a keyword literal, for parsers built with and without CaseInsensitive.
type KW struct {
	V string `"let" @Ident`
}

var kwLexer = lexer.MustSimple([]lexer.SimpleRule{{Name: "Ident", Pattern: `[a-zA-Z]+`}, {Name: "Space", Pattern: ` +`}})

func buildAndParse(in string, opts ...participle.Option) string {
	p, err := participle.Build[KW](append([]participle.Option{participle.Lexer(kwLexer), participle.Elide("Space")}, opts...)...)
	if err != nil {
		return "BUILD ERR " + err.Error()
	}
	return render(p.ParseString("f", in))
}

func NewDef() *lexer.StatefulDefinition { return lexer.MustStateful(HeredocRules()) }

func NewParser() *participle.Parser[Doc] {
	return participle.MustBuild[Doc](
		participle.Lexer(NewDef()),
		participle.Union[Val](Pair{}, &Sig{}, Num{}, Here{}, Word{}, Not{}),
		participle.Elide("Space"),
		participle.UseLookahead(2),
		participle.Upper("Ident"),
		participle.Map(func(t lexer.Token) (lexer.Token, error) { t.Value += "_"; return t, nil }, "Ident"),
		participle.Map(func(t lexer.Token) (lexer.Token, error) { t.Value = "#" + t.Value; return t, nil }, "Int"),
		participle.Map(func(t lexer.Token) (lexer.Token, error) { t.Value += "%"; return t, nil }, "Int"),
		participle.Map(func(t lexer.Token) (lexer.Token, error) { t.Value = strings.TrimSpace(t.Value); return t, nil }, "HereText"),
	)
}

func render(v any, err error) string {
	b, _ := json.Marshal(v)
	if err != nil {
		return fmt.Sprintf("%s | ERR %T %v", b, err, err)
	}
	return string(b)
}

func lexAll(def lexer.Definition, in string) string {
	lx, err := def.Lex("f", strings.NewReader(in))
	if err != nil {
		return "ERR " + err.Error()
	}
	toks, err := lexer.ConsumeAll(lx)
	return render(toks, err)
}

// Call is one operation of a scenario on the shared object.
type Call struct {
	Name string
	F    func(shared any) string
	// R, if set, runs the call and returns a renderer of the RETAINED result: it is rendered once at
	// once and once more after every other call of the scenario / history has finished (a result
	// must not change behind the caller's back).
	R func(shared any) func() string
}

// Scenario: a fresh shared object and the calls that run concurrently on it.
type Scenario struct {
	Name  string
	New   func() any
	Calls []Call
}

const (
	InA    = "a = <<X hello X; b = 12; c = d e!; f = g;"
	InB    = "a = <<Y world Y; z = 7;"
	InSame = "q = <<X other X;"
	InBad  = "a = b c; d = ;"
	InLex  = "a = <<X unterminated $"
	InAlt  = "k = <-XY body X;"
	InBare = "a = 1; b = <= x X;"
	InNot1 = "a = ! ;"
	InNot2 = "b = 1;\n\nc = ! x; d = ! ;"
)

func parseFileCall(name, file, in string) Call {
	return Call{Name: "ParseString(" + name + ")",
		F: func(s any) string { return render(s.(*participle.Parser[Doc]).ParseString(file, in)) },
		R: func(s any) func() string {
			v, err := s.(*participle.Parser[Doc]).ParseString(file, in)
			return func() string { return render(v, err) }
		}}
}

func readerCall(name, in string, fail error) Call {
	return Call{Name: "Parse(slow reader " + name + ")",
		F: func(s any) string {
			return render(s.(*participle.Parser[Doc]).Parse("f", &slowReader{s: in, fail: fail}))
		},
		R: func(s any) func() string {
			v, err := s.(*participle.Parser[Doc]).Parse("f", &slowReader{s: in, fail: fail})
			return func() string { return render(v, err) }
		}}
}

func parseCall(name, in string) Call {
	return Call{Name: "ParseString(" + name + ")",
		F: func(s any) string { return render(s.(*participle.Parser[Doc]).ParseString("f", in)) },
		R: func(s any) func() string {
			v, err := s.(*participle.Parser[Doc]).ParseString("f", in)
			return func() string { return render(v, err) }
		}}
}

func Scenarios() []Scenario {
	lexCall := func(name, in string) Call {
		return Call{Name: "lex(" + name + ")", F: func(s any) string { return lexAll(s.(lexer.Definition), in) }}
	}
	newDef := func() any { return NewDef() }
	newParser := func() any { return NewParser() }
	return []Scenario{
		{"S1a definition: different back-reference keys", newDef, []Call{lexCall("A", InA), lexCall("B", InB)}},
		{"S1b definition: same back-reference key", newDef, []Call{lexCall("A", InA), lexCall("Same", InSame)}},
		{"S1c definition: three lexers", newDef, []Call{lexCall("A", InA), lexCall("B", InB), lexCall("Alt", InAlt)}},
		{"S2a parser: success || failure", newParser, []Call{parseCall("A", InA), parseCall("Bad", InBad)}},
		{"S2b parser: success || String()", newParser, []Call{parseCall("A", InA), {Name: "String()", F: func(s any) string { return s.(*participle.Parser[Doc]).String() }}}},
		{"S2c parser: success || success || lex error", newParser, []Call{parseCall("A", InA), parseCall("B", InB), parseCall("Lex", InLex)}},
		{"S2d parser: AllowTrailing || strict || Trace", newParser, []Call{
			{Name: "ParseString(trailing, AllowTrailing)", F: func(s any) string {
				return render(s.(*participle.Parser[Doc]).ParseString("f", "a = 1; ; ;", participle.AllowTrailing(true)))
			}},
			{Name: "ParseString(trailing, strict)", F: func(s any) string { return render(s.(*participle.Parser[Doc]).ParseString("f", "a = 1; ; ;")) }},
			{Name: "ParseString(B, Trace)", F: func(s any) string {
				var sb strings.Builder
				r := render(s.(*participle.Parser[Doc]).ParseString("f", InB, participle.Trace(&sb)))
				return fmt.Sprintf("%s | trace bytes %d", r, sb.Len())
			}},
		}},
		{"S2e parser: String() || String() || failing parse", newParser, []Call{
			{Name: "String()", F: func(s any) string { return s.(*participle.Parser[Doc]).String() }},
			{Name: "String() again", F: func(s any) string { return s.(*participle.Parser[Doc]).String() }},
			parseCall("Bad", InBad),
		}},
		{"S3 ebnf package-level parser", func() any { return nil }, []Call{
			{Name: "ebnf(1)", F: func(any) string { return render(ebnf.ParseString(`A = "a" | B . B = ( "b" C )* .`)) }},
			{Name: "ebnf(1) then edit the tree", F: func(any) string {
				e, err := ebnf.ParseString(`A = "a" | B . B = ( "b" C )* .`)
				r := render(e, err)
				if err == nil && len(e.Productions) > 1 {
					e.Productions[1].Production = "Renamed"
					e.Productions[0].Expression.Alternatives[0].Terms[0].Repetition = "+"
					e.Productions = e.Productions[:1]
				}
				return r
			}},
			{Name: "ebnf(2)", F: func(any) string { return render(ebnf.ParseString(`X = ~"x" (?= Y ) Z+ . `)) }},
		}},
		{"S2f parser: two parses failing in a negation, at different places of different files", newParser, []Call{
			parseFileCall("Not1", "one.conf", InNot1), parseFileCall("Not2", "two.conf", InNot2)}},
		{"S4b parser: Parse(slow reader) || Parse(slow reader) || Parse(reader failing midway)", newParser, []Call{
			readerCall("A", InA, nil), readerCall("B", InB, nil), readerCall("broken", "zz = 1; yy = ", errReader)}},
		{"S5 Build || Build with CaseInsensitive (package-level state)", func() any { return nil }, []Call{
			{Name: "Build(plain) then ParseString(LET x)", F: func(any) string { return buildAndParse("LET x") }},
			{Name: "Build(CaseInsensitive Ident) then ParseString(LET x)", F: func(any) string {
				return buildAndParse("LET x", participle.CaseInsensitive("Ident"))
			}},
			{Name: "Build(plain) then ParseString(let x)", F: func(any) string { return buildAndParse("let x") }},
		}},
		{"S4 parser: ParseBytes || Lex || Parse(reader)", newParser, []Call{
			{Name: "ParseBytes(A)", F: func(s any) string { return render(s.(*participle.Parser[Doc]).ParseBytes("f", []byte(InA))) }},
			{Name: "Lex(B)", F: func(s any) string { return render(s.(*participle.Parser[Doc]).Lex("f", strings.NewReader(InB))) }},
			{Name: "Parse(reader Same)", F: func(s any) string {
				return render(s.(*participle.Parser[Doc]).Parse("f", strings.NewReader(InSame)))
			}},
		}},
	}
}

// HistoryCalls is the alphabet of the sequential call-history exploration on one shared parser.
func HistoryCalls() []Call {
	return []Call{
		parseCall("A", InA), parseCall("B", InB), parseCall("Same", InSame), parseCall("Bad", InBad), parseCall("Lex", InLex), parseCall("Alt", InAlt),
		{Name: "String()", F: func(s any) string { return s.(*participle.Parser[Doc]).String() }},
		{Name: "Lex(A)", F: func(s any) string { return render(s.(*participle.Parser[Doc]).Lex("f", strings.NewReader(InA))) }},
		parseCall("Bare", InBare),
		{Name: "ParserForProduction[Item] then its ParseString", F: func(s any) string {
			pp, err := participle.ParserForProduction[Item](s.(*participle.Parser[Doc]))
			if err != nil {
				return "ERR " + err.Error()
			}
			return render(pp.ParseString("f", "k = 7;"))
		}},
		parseFileCall("Not1", "one.conf", InNot1), parseFileCall("Not2", "two.conf", InNot2),
		readerCall("A", InA, nil), readerCall("broken", "zz = 1; yy = ", errReader),
		{Name: "Build a second parser on this parser's Lexer() with more mappers, use it", F: func(s any) string {
			p := s.(*participle.Parser[Doc])
			q, err := participle.Build[KW](participle.Lexer(p.Lexer()), participle.Elide("Space"), participle.Upper("Ident"),
				participle.Map(func(t lexer.Token) (lexer.Token, error) { t.Value = "<" + t.Value + ">"; return t, nil }, "Ident", "Int"))
			if err != nil {
				return "BUILD ERR " + err.Error()
			}
			return render(q.ParseString("f", "let x"))
		}},
		{Name: "ParseBytes(empty)", F: func(s any) string { return render(s.(*participle.Parser[Doc]).ParseBytes("", nil)) }},
		{Name: "ParseString(trailing garbage)", F: func(s any) string { return render(s.(*participle.Parser[Doc]).ParseString("f", "a = 1; ; ;")) }},
		{Name: "ParseString(trailing garbage, AllowTrailing)", F: func(s any) string {
			return render(s.(*participle.Parser[Doc]).ParseString("f", "a = 1; ; ;", participle.AllowTrailing(true)))
		}},
		{Name: "ParseString(A, Trace)", F: func(s any) string {
			var sb strings.Builder
			r := render(s.(*participle.Parser[Doc]).ParseString("f", InA, participle.Trace(&sb)))
			return fmt.Sprintf("%s | trace bytes %d", r, sb.Len())
		}},
	}
}

// ---- interleaved lexers on one shared definition (call-granularity schedules)

// AliasRules: two push rules whose captured groups join to the same NUL-separated string.
func AliasRules() lexer.Rules {
	return lexer.Rules{
		"Root": {
			{Name: "One", Pattern: "(x\x00y)", Action: lexer.Push("S")},
			{Name: "T", Pattern: `t`, Action: lexer.Push("T")},
			{Name: "Any", Pattern: `(?s:.)`},
		},
		"T": {
			{Name: "Two", Pattern: "(x)\x00(y)", Action: lexer.Push("S")},
			{Name: "TAny", Pattern: `(?s:.)`, Action: lexer.Pop()},
		},
		"S": {
			{Name: "Ref", Pattern: `\1`},
			{Name: "End", Pattern: `!`, Action: lexer.Pop()},
			{Name: "SAny", Pattern: `(?s:.)`},
		},
	}
}

// QuoteRules: nested quoting states without back-references (also generated by the CLI for S5).
func QuoteRules() lexer.Rules {
	return lexer.Rules{
		"Root": {
			{Name: "DQ", Pattern: `"`, Action: lexer.Push("InDQ")},
			{Name: "SQ", Pattern: `'`, Action: lexer.Push("InSQ")},
			{Name: "Word", Pattern: `[a-z]+`},
			{Name: "Space", Pattern: ` +`},
		},
		"InDQ": {
			{Name: "DQEnd", Pattern: `"`, Action: lexer.Pop()},
			{Name: "Open", Pattern: `\(`, Action: lexer.Push("Root")},
			{Name: "DChar", Pattern: `[^"(]+`},
		},
		"InSQ": {
			{Name: "SQEnd", Pattern: `'`, Action: lexer.Pop()},
			{Name: "SChar", Pattern: `[^']+`},
		},
	}
}

// ZeroRefRules: a \0 back-reference (the whole match of the entering rule): raw strings delimited
// by a run of N quotes. Two entries differ only in group 0.
func ZeroRefRules() lexer.Rules {
	return lexer.Rules{
		"Root": {
			{Name: "Open", Pattern: `'+`, Action: lexer.Push("Raw")},
			{Name: "Word", Pattern: `[a-z]+`},
			{Name: "Space", Pattern: ` +`},
		},
		"Raw": {
			{Name: "Close", Pattern: `\0`, Action: lexer.Pop()},
			{Name: "Char", Pattern: `(?s:.)`},
		},
	}
}

type LexPair struct {
	Name   string
	Def    func() lexer.Definition
	Inputs []string
}

// TokenStream drives one lexer to the end.
func TokenStream(lx lexer.Lexer) string {
	toks, err := lexer.ConsumeAll(lx)
	return render(toks, err)
}
