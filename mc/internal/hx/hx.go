// Package hx is the shared harness of all explorers: a supervisor process that runs the
// exploration in a child (so that a fatal crash or a hang of the code under test is attributed to
// a job instead of killing the check), a parallel job runner, violation bookkeeping with
// known-finding classification, replay files and evidence files.
package hx

import (
	"bufio"
	"crypto/sha256"
	"encoding/hex"
	"encoding/json"
	"flag"
	"fmt"
	"hash/fnv"
	"os"
	"os/exec"
	"path/filepath"
	"runtime"
	"runtime/debug"
	"sort"
	"strconv"
	"strings"
	"sync"
	"sync/atomic"
	"time"
)

const VerifDir = "/verif"

// OutDir is where evidence, replays and scratch files go (default /verif; VERIF_OUT overrides it so
// that runs against scratch copies of the repository do not overwrite the real evidence).
func OutDir() string {
	if d := os.Getenv("VERIF_OUT"); d != "" {
		return d
	}
	return VerifDir
}

// RepoDir is the repository under test (default /repo; VERIF_REPO selects a scratch worktree).
func RepoDir() string {
	if d := os.Getenv("VERIF_REPO"); d != "" {
		return d
	}
	return "/repo"
}

// Violation is one case in which the property did not hold.
type Violation struct {
	Key    string         `json:"key"`    // canonical, replayable description of the case
	Class  string         `json:"class"`  // short description of the wrong outcome (stable)
	Detail map[string]any `json:"detail"` // anything helpful: expected, actual, ...
}

// Spec describes one engine.
type Spec struct {
	Engine string
	// Level per property ("model_checking" or "exploration").
	Levels map[string]string
	// JobTimeout: a job that runs longer than this is considered hung.
	JobTimeout time.Duration
	// Plan builds the job list for (property, tier). It runs in the child.
	Plan func(c *Ctx) *Plan
	// Replay re-executes one case given its key; returns violations found (nil = holds).
	Replay func(c *Ctx, key string) []Violation
}

// Plan is a list of jobs plus descriptive data for the evidence file.
type Plan struct {
	N        int
	Job      func(w *Worker, i int)
	Describe func(i int) string // human readable job description (for crash attribution)
	Rule     string
	Bounds   map[string]any
	Assume   []string
	// Finish is called in the child after all jobs have run (single threaded).
	Finish func(c *Ctx, w *Worker)
}

// Ctx is the per-run context.
type Ctx struct {
	Prop  string
	Tier  string
	Seed  int64
	Spec  *Spec
	Extra map[string]string
	start time.Time
}

func (c *Ctx) Quick() bool { return c.Tier != "thorough" }

// Worker accumulates results of one worker goroutine (merged at the end).
type Worker struct {
	id         int
	counters   map[string]int64
	distinct   map[uint64]struct{}
	samples    []any
	viol       []Violation
	violTotal  int64
	violSeen   map[string]bool
	announce   *bufio.Writer // only in -only mode
	cur        atomic.Int64
	curStart   atomic.Int64
	notes      map[string]any
	local      map[string]any
	slowest    time.Duration
	slowestJob int
}

func newWorker(id int) *Worker {
	return &Worker{id: id, counters: map[string]int64{}, distinct: map[uint64]struct{}{}, violSeen: map[string]bool{}, notes: map[string]any{}}
}

func (w *Worker) Count(name string, d int64) { w.counters[name] += d }
func (w *Worker) Distinct(h uint64)          { w.distinct[h] = struct{}{} }
func (w *Worker) DistinctS(s string)         { w.distinct[Hash(s)] = struct{}{} }
func (w *Worker) Note(k string, v any)       { w.notes[k] = v }
func (w *Worker) Sample(v any) {
	if len(w.samples) < 4 {
		w.samples = append(w.samples, v)
	}
}

// Case announces the case about to run (only has an effect in single-job diagnosis mode).
func (w *Worker) Case(f func() string) {
	if w.announce != nil {
		fmt.Fprintf(w.announce, "C %s\n", strconv.Quote(f()))
		w.announce.Flush()
	}
}

const maxViolKept = 20000

func (w *Worker) Violate(v Violation) {
	w.violTotal++
	k := v.Key + "\x00" + v.Class
	if w.violSeen[k] {
		return
	}
	w.violSeen[k] = true
	if len(w.viol) < maxViolKept {
		w.viol = append(w.viol, v)
	}
}

func Hash(s string) uint64 {
	h := fnv.New64a()
	h.Write([]byte(s))
	return h.Sum64()
}

func ShortHash(s string) string {
	x := sha256.Sum256([]byte(s))
	return hex.EncodeToString(x[:6])
}

// childResult is what the child writes for the parent.
type childResult struct {
	Counters  map[string]int64 `json:"counters"`
	Distinct  int              `json:"distinct"`
	Samples   []any            `json:"samples"`
	Viol      []Violation      `json:"viol"`
	ViolTotal int64            `json:"viol_total"`
	Rule      string           `json:"rule"`
	Bounds    map[string]any   `json:"bounds"`
	Assume    []string         `json:"assume"`
	Jobs      int              `json:"jobs"`
	Notes     map[string]any   `json:"notes"`
	Complete  bool             `json:"complete"`
	BudgetHit bool             `json:"budget_hit"`
	JobsDone  int              `json:"jobs_done"`
}

var (
	fProp   = flag.String("prop", "", "property id")
	fTier   = flag.String("tier", "quick", "quick|thorough")
	fReplay = flag.String("replay", "", "replay file or case key")
	fChild  = flag.String("child-out", "", "(internal) child mode: result file")
	fSkip   = flag.String("skip", "", "(internal) comma separated job indexes to skip")
	fOnly   = flag.Int("only", -1, "(internal) run only this job, announcing cases")
	fBudget = flag.Duration("budget", 0, "wall clock budget for the exploration (0 = tier default)")
	fX      = flag.String("x", "", "engine specific k=v,k=v")
	fList   = flag.Bool("list-violations", false, "print every violation key")
)

// Main is the entry point of every engine binary.
func Main(spec *Spec) {
	flag.Parse()
	tier := *fTier
	if t := os.Getenv("VERIF_TIER"); t != "" && !flagSet("tier") {
		tier = t
	}
	seed := int64(0)
	if s := os.Getenv("VERIF_SEED"); s != "" {
		seed, _ = strconv.ParseInt(s, 10, 64)
	}
	c := &Ctx{Prop: *fProp, Tier: tier, Seed: seed, Spec: spec, Extra: map[string]string{}, start: time.Now()}
	for _, kv := range strings.Split(*fX, ",") {
		if i := strings.IndexByte(kv, '='); i > 0 {
			c.Extra[kv[:i]] = kv[i+1:]
		}
	}
	if _, ok := spec.Levels[c.Prop]; !ok {
		fmt.Fprintf(os.Stderr, "%s: unknown property %q\n", spec.Engine, c.Prop)
		os.Exit(2)
	}
	if spec.JobTimeout == 0 {
		spec.JobTimeout = 120 * time.Second
	}
	switch {
	case *fReplay != "":
		os.Exit(replayMain(c))
	case *fChild != "":
		childMain(c)
	default:
		os.Exit(parentMain(c))
	}
}

func flagSet(name string) bool {
	set := false
	flag.Visit(func(f *flag.Flag) {
		if f.Name == name {
			set = true
		}
	})
	return set
}

// ---------------------------------------------------------------- child

func childMain(c *Ctx) {
	debug.SetMaxStack(256 << 20)
	plan := c.Spec.Plan(c)
	skip := map[int]bool{}
	for _, s := range strings.Split(*fSkip, ",") {
		if s != "" {
			n, _ := strconv.Atoi(s)
			skip[n] = true
		}
	}
	pipe := os.NewFile(3, "events")
	var pipeMu sync.Mutex
	emit := func(s string) {
		if pipe == nil {
			return
		}
		pipeMu.Lock()
		pipe.WriteString(s)
		pipeMu.Unlock()
	}
	budget := *fBudget
	deadline := time.Time{}
	if budget > 0 {
		deadline = time.Now().Add(budget)
	}
	nw := runtime.GOMAXPROCS(0)
	if *fOnly >= 0 {
		nw = 1
	}
	workers := make([]*Worker, nw)
	var next atomic.Int64
	var done atomic.Int64
	var budgetHit atomic.Bool
	var wg sync.WaitGroup
	for wi := 0; wi < nw; wi++ {
		w := newWorker(wi)
		workers[wi] = w
		if *fOnly >= 0 && pipe != nil {
			w.announce = bufio.NewWriter(pipe)
		}
		wg.Add(1)
		go func() {
			defer wg.Done()
			for {
				i := int(next.Add(1) - 1)
				if *fOnly >= 0 {
					if i > 0 {
						return
					}
					i = *fOnly
				}
				if i >= plan.N {
					return
				}
				if skip[i] {
					continue
				}
				if !deadline.IsZero() && time.Now().After(deadline) {
					budgetHit.Store(true)
					return
				}
				emit(fmt.Sprintf("S %d %d\n", w.id, i))
				t0 := time.Now()
				func() {
					defer func() {
						if r := recover(); r != nil {
							w.Violate(Violation{Key: "job:" + plan.Describe(i), Class: "harness-panic",
								Detail: map[string]any{"panic": fmt.Sprint(r), "stack": string(debug.Stack())}})
						}
					}()
					plan.Job(w, i)
				}()
				if d := time.Since(t0); d > w.slowest {
					w.slowest, w.slowestJob = d, i
				}
				done.Add(1)
				emit(fmt.Sprintf("D %d %d\n", w.id, i))
			}
		}()
	}
	wg.Wait()
	m := newWorker(-1)
	for _, w := range workers {
		if w.slowest > m.slowest {
			m.slowest, m.slowestJob = w.slowest, w.slowestJob
		}
		for k, v := range w.counters {
			m.counters[k] += v
		}
		for k := range w.distinct {
			m.distinct[k] = struct{}{}
		}
		for _, s := range w.samples {
			m.Sample(s)
		}
		for _, v := range w.viol {
			m.Violate(v)
		}
		m.violTotal += w.violTotal - int64(len(w.viol))
		for k, v := range w.notes {
			m.notes[k] = v
		}
	}
	if plan.Finish != nil {
		plan.Finish(c, m)
	}
	if m.slowest > 0 {
		m.notes["slowest_job"] = map[string]any{"seconds": m.slowest.Seconds(), "job": plan.Describe(m.slowestJob)}
	}
	sort.Slice(m.viol, func(i, j int) bool {
		if len(m.viol[i].Key) != len(m.viol[j].Key) {
			return len(m.viol[i].Key) < len(m.viol[j].Key)
		}
		return m.viol[i].Key < m.viol[j].Key
	})
	res := childResult{Counters: m.counters, Distinct: len(m.distinct), Samples: m.samples, Viol: m.viol, ViolTotal: m.violTotal,
		Rule: plan.Rule, Bounds: plan.Bounds, Assume: plan.Assume, Jobs: plan.N, Notes: m.notes,
		Complete: !budgetHit.Load(), BudgetHit: budgetHit.Load(), JobsDone: int(done.Load())}
	b, err := json.Marshal(res)
	if err != nil {
		fmt.Fprintln(os.Stderr, "marshal:", err)
		os.Exit(2)
	}
	if err := os.WriteFile(*fChild, b, 0o644); err != nil {
		fmt.Fprintln(os.Stderr, err)
		os.Exit(2)
	}
	os.Exit(0)
}

// ---------------------------------------------------------------- parent

type childRun struct {
	res      *childResult
	crashed  bool
	hung     bool
	inflight map[int]bool // jobs in flight at crash/hang time
	lastCase string
	stderr   string
}

func runChild(c *Ctx, skip []int, only int, timeout time.Duration) *childRun {
	os.MkdirAll(filepath.Join(OutDir(), "build", "tmp"), 0o755)
	out := filepath.Join(OutDir(), "build", "tmp", fmt.Sprintf("%s-%s-%d.json", c.Spec.Engine, c.Prop, os.Getpid()))
	os.Remove(out)
	defer os.Remove(out)
	args := []string{"-prop", c.Prop, "-tier", c.Tier, "-child-out", out, "-x", *fX}
	if len(skip) > 0 {
		var ss []string
		for _, s := range skip {
			ss = append(ss, strconv.Itoa(s))
		}
		args = append(args, "-skip", strings.Join(ss, ","))
	}
	if only >= 0 {
		args = append(args, "-only", strconv.Itoa(only))
	}
	if b := budgetFor(c); b > 0 && only < 0 {
		args = append(args, "-budget", b.String())
	}
	cmd := exec.Command(os.Args[0], args...)
	pr, pw, _ := os.Pipe()
	cmd.ExtraFiles = []*os.File{pw}
	cmd.Stdout = os.Stdout
	var errBuf tailBuf
	cmd.Stderr = &errBuf
	cmd.Env = append(os.Environ(), "VERIF_SEED="+strconv.FormatInt(c.Seed, 10))
	if err := cmd.Start(); err != nil {
		fmt.Fprintln(os.Stderr, "cannot start child:", err)
		os.Exit(2)
	}
	pw.Close()
	r := &childRun{inflight: map[int]bool{}}
	var mu sync.Mutex
	started := map[int]time.Time{}
	evDone := make(chan struct{})
	go func() {
		sc := bufio.NewScanner(pr)
		sc.Buffer(make([]byte, 1<<20), 1<<26)
		for sc.Scan() {
			line := sc.Text()
			if len(line) < 2 {
				continue
			}
			mu.Lock()
			switch line[0] {
			case 'S':
				var wi, j int
				fmt.Sscanf(line[2:], "%d %d", &wi, &j)
				started[j] = time.Now()
			case 'D':
				var wi, j int
				fmt.Sscanf(line[2:], "%d %d", &wi, &j)
				delete(started, j)
			case 'C':
				if s, err := strconv.Unquote(line[2:]); err == nil {
					r.lastCase = s
				}
			}
			mu.Unlock()
		}
		close(evDone)
	}()
	waitCh := make(chan error, 1)
	go func() { waitCh <- cmd.Wait() }()
	tick := time.NewTicker(time.Second)
	defer tick.Stop()
	t0 := time.Now()
	var werr error
loop:
	for {
		select {
		case werr = <-waitCh:
			break loop
		case <-tick.C:
			mu.Lock()
			stale := false
			for _, st := range started {
				if time.Since(st) > c.Spec.JobTimeout {
					stale = true
				}
			}
			mu.Unlock()
			if timeout > 0 && time.Since(t0) > timeout {
				stale = true
			}
			if stale {
				r.hung = true
				cmd.Process.Kill()
				werr = <-waitCh
				break loop
			}
		}
	}
	<-evDone
	pr.Close()
	r.stderr = errBuf.String()
	mu.Lock()
	for j, st := range started {
		if !r.hung || time.Since(st) > c.Spec.JobTimeout/2 || timeout > 0 {
			r.inflight[j] = true
		}
	}
	mu.Unlock()
	if b, err := os.ReadFile(out); err == nil && !r.hung {
		var cr childResult
		if json.Unmarshal(b, &cr) == nil {
			r.res = &cr
			return r
		}
	}
	if !r.hung {
		r.crashed = true
		_ = werr
	}
	return r
}

type tailBuf struct {
	mu  sync.Mutex
	buf []byte
}

func (t *tailBuf) Write(p []byte) (int, error) {
	t.mu.Lock()
	defer t.mu.Unlock()
	t.buf = append(t.buf, p...)
	if len(t.buf) > 1<<16 {
		// keep head (the fatal error line and first goroutine) and tail
		head := append([]byte{}, t.buf[:1<<14]...)
		t.buf = append(head, t.buf[len(t.buf)-(1<<14):]...)
	}
	return len(p), nil
}
func (t *tailBuf) String() string { t.mu.Lock(); defer t.mu.Unlock(); return string(t.buf) }

func budgetFor(c *Ctx) time.Duration {
	if *fBudget > 0 {
		return *fBudget
	}
	if c.Quick() {
		return 8 * time.Minute
	}
	return 3 * time.Hour
}

func parentMain(c *Ctx) int {
	var skip []int
	var extra []Violation
	var last *childRun
	stopped := 0
	for attempt := 0; attempt < 3; attempt++ {
		r := runChild(c, skip, -1, 0)
		last = r
		if r.res != nil {
			break
		}
		// crash or hang: find one in-flight job that reproduces it in isolation; that is a violation
		// and ends the run (the exploration is then reported as not exhaustive)
		what := map[bool]string{true: "hung", false: "crashed"}[r.hung]
		fmt.Fprintf(os.Stderr, "[%s] child %s; diagnosing %d in-flight job(s)\n", c.Spec.Engine, what, len(r.inflight))
		var js []int
		for j := range r.inflight {
			js = append(js, j)
		}
		sort.Ints(js)
		confirmed := false
		for _, j := range js {
			d := runChild(c, nil, j, c.Spec.JobTimeout)
			if d.res != nil {
				continue
			}
			cls := "fatal-crash"
			if d.hung {
				cls = "hang"
			}
			key := d.lastCase
			if key == "" {
				key = fmt.Sprintf("job#%d", j)
			}
			extra = append(extra, Violation{Key: key, Class: cls, Detail: map[string]any{"job": j, "stderr": firstLines(d.stderr, 40)}})
			confirmed = true
			break
		}
		if confirmed {
			stopped = 1
			break
		}
		fmt.Fprintf(os.Stderr, "[%s] the %s child could not be reproduced on any single job; retrying the run\n", c.Spec.Engine, what)
		// The jobs of one child run on 16 goroutines and share nothing but the package-level state of the code
		// under test. A Go runtime "concurrent map" fatal with the library on the stack, which no single job
		// reproduces, is the library's shared state being used unsynchronised: reported after the last attempt.
		if attempt == 2 && !r.hung && strings.Contains(r.stderr, "fatal error: concurrent map") && strings.Contains(r.stderr, "alecthomas/participle") {
			extra = append(extra, Violation{Key: "jobs running concurrently in one process (no single job reproduces it)", Class: "fatal-crash-under-concurrent-use", Detail: map[string]any{"stderr": firstLines(r.stderr, 60)}})
			stopped = 1
		}
	}
	return finish(c, last, extra, stopped)
}

func firstLines(s string, n int) string {
	ls := strings.Split(s, "\n")
	if len(ls) > n {
		ls = ls[:n]
	}
	return strings.Join(ls, "\n")
}

// ---------------------------------------------------------------- known findings

type KnownEntry struct {
	ID       string   `json:"id"`
	Property string   `json:"property"`
	Status   string   `json:"status"` // open | fixed
	Commit   string   `json:"commit,omitempty"`
	Summary  string   `json:"summary"`
	Witness  string   `json:"witness,omitempty"`
	Scope    string   `json:"scope,omitempty"`
	Keys     []string `json:"keys,omitempty"`      // "key\tclass" entries
	KeysFile string   `json:"keys_file,omitempty"` // file with one "key\tclass" per line
	set      map[string]bool
}

func loadKnown(prop string) []*KnownEntry {
	b, err := os.ReadFile(filepath.Join(VerifDir, "known_findings.json"))
	if err != nil {
		return nil
	}
	var doc struct {
		Findings []*KnownEntry `json:"findings"`
	}
	if err := json.Unmarshal(b, &doc); err != nil {
		fmt.Fprintln(os.Stderr, "known_findings.json:", err)
		os.Exit(2)
	}
	var out []*KnownEntry
	for _, e := range doc.Findings {
		if e.Property != prop || e.Status != "open" {
			continue
		}
		e.set = map[string]bool{}
		for _, k := range e.Keys {
			e.set[k] = true
		}
		if e.KeysFile != "" {
			f, err := os.Open(filepath.Join(VerifDir, e.KeysFile))
			if err != nil {
				fmt.Fprintln(os.Stderr, "known keys file:", err)
				os.Exit(2)
			}
			sc := bufio.NewScanner(f)
			sc.Buffer(make([]byte, 1<<20), 1<<26)
			for sc.Scan() {
				if t := sc.Text(); t != "" {
					e.set[t] = true
				}
			}
			f.Close()
		}
		out = append(out, e)
	}
	return out
}

// ---------------------------------------------------------------- finish: classify, write evidence, print

func finish(c *Ctx, last *childRun, extra []Violation, skipped int) int {
	res := &childResult{Counters: map[string]int64{}}
	if last != nil && last.res != nil {
		res = last.res
	}
	all := append(append([]Violation{}, extra...), res.Viol...)
	known := loadKnown(c.Prop)
	knownHits := map[string]int{}
	var unknown []Violation
	for _, v := range all {
		k := v.Key + "\t" + v.Class
		hit := false
		for _, e := range known {
			if e.set[k] {
				knownHits[e.ID]++
				hit = true
				break
			}
		}
		if !hit {
			unknown = append(unknown, v)
		}
	}
	truncated := res.ViolTotal > int64(len(res.Viol)) && len(res.Viol) >= maxViolKept
	// dump all violations of this run for maintenance tooling
	lastDir := filepath.Join(OutDir(), "build", "last")
	os.MkdirAll(lastDir, 0o755)
	if b, err := json.Marshal(all); err == nil {
		os.WriteFile(filepath.Join(lastDir, c.Prop+"."+c.Tier+".violations.json"), b, 0o644)
	}
	// replay files
	repDir := filepath.Join(OutDir(), "replays", c.Prop)
	var lines []string
	for i, v := range unknown {
		if i >= 25 {
			break
		}
		os.MkdirAll(repDir, 0o755)
		p := filepath.Join(repDir, ShortHash(v.Key+"\x00"+v.Class)+".json")
		b, _ := json.MarshalIndent(map[string]any{"property": c.Prop, "engine": c.Spec.Engine, "tier": c.Tier, "key": v.Key, "class": v.Class, "detail": v.Detail, "extra": *fX}, "", " ")
		os.WriteFile(p, b, 0o644)
		lines = append(lines, fmt.Sprintf("VIOLATION property=%s replay=%s", c.Prop, p))
		fmt.Fprintf(os.Stderr, "  violation: %s  [%s]\n", v.Key, v.Class)
	}
	if *fList {
		for _, v := range all {
			fmt.Fprintf(os.Stderr, "V\t%s\t%s\n", v.Key, v.Class)
		}
	}
	wall := time.Since(c.start).Seconds()
	exhaustive := res.Complete && skipped == 0 && last != nil && last.res != nil
	for k, v := range res.Counters {
		if strings.Contains(k, "capped") && v > 0 {
			exhaustive = false // an engine stopped part of its enumeration at a cap: the bounded space was not exhausted
		}
	}
	cov := map[string]any{}
	for k, v := range res.Counters {
		cov[k] = v
	}
	evals := res.Counters["evaluations"]
	cov["evaluations"] = evals
	cov["distinct_nontrivial"] = res.Distinct
	cov["rule"] = res.Rule
	samples := res.Samples
	if samples == nil {
		samples = []any{}
	}
	cov["samples"] = samples
	cov["exhaustive"] = exhaustive
	cov["bounds"] = res.Bounds
	cov["jobs"] = res.Jobs
	cov["jobs_done"] = res.JobsDone
	cov["budget_hit"] = res.BudgetHit
	cov["jobs_skipped_after_crash"] = skipped
	for k, v := range res.Notes {
		cov[k] = v
	}
	level := c.Spec.Levels[c.Prop]
	if level == "model_checking" {
		if _, ok := cov["states"]; !ok {
			cov["states"] = evals
		}
		if _, ok := cov["transitions"]; !ok {
			cov["transitions"] = evals
		}
		if _, ok := cov["traces_validated_against_impl"]; !ok {
			cov["traces_validated_against_impl"] = evals
		}
	}
	kf := map[string]int{}
	for id, n := range knownHits {
		kf[id] = n
	}
	cov["known_finding_cases"] = kf
	cov["violations_total_cases"] = res.ViolTotal + int64(len(extra))
	ev := map[string]any{
		"property_id": c.Prop, "tier": c.Tier, "seed": c.Seed, "level": level,
		"coverage": cov, "assumptions": res.Assume, "wall_s": wall, "violations": len(unknown),
		"engine": c.Spec.Engine,
	}
	if ev["assumptions"] == nil {
		ev["assumptions"] = []string{}
	}
	os.MkdirAll(filepath.Join(OutDir(), "evidence"), 0o755)
	if os.Getenv("VERIF_EVIDENCE_MERGE") != "" {
		// a second engine contributes to the same property (C04: generated lexers): keep the first
		// engine's evidence, add this run as a named part and add up the headline counts
		if ob, err := os.ReadFile(filepath.Join(OutDir(), "evidence", c.Prop+".json")); err == nil {
			var old map[string]any
			if json.Unmarshal(ob, &old) == nil {
				if oc, ok := old["coverage"].(map[string]any); ok {
					oc["part:"+c.Spec.Engine] = cov
					for _, k := range []string{"evaluations", "distinct_nontrivial"} {
						a, _ := oc[k].(float64)
						var bb float64
						switch v := cov[k].(type) {
						case int64:
							bb = float64(v)
						case int:
							bb = float64(v)
						}
						oc[k] = int64(a + bb)
					}
					if ex, _ := oc["exhaustive"].(bool); ex {
						oc["exhaustive"] = exhaustive
					}
					ow, _ := old["wall_s"].(float64)
					old["wall_s"] = ow + wall
					ov, _ := old["violations"].(float64)
					old["violations"] = int(ov) + len(unknown)
					old["engine"] = fmt.Sprint(old["engine"], "+", c.Spec.Engine)
					ev = old
				}
			}
		}
	}
	b, _ := json.MarshalIndent(ev, "", " ")
	if err := os.WriteFile(filepath.Join(OutDir(), "evidence", c.Prop+".json"), b, 0o644); err != nil {
		fmt.Fprintln(os.Stderr, err)
		return 2
	}
	for _, e := range known {
		if n := knownHits[e.ID]; n > 0 {
			fmt.Printf("KNOWN-FINDING: property=%s %s %s (%d cases in this run)\n", c.Prop, e.ID, e.Summary, n)
		}
	}
	fmt.Printf("[%s %s %s] jobs=%d/%d evaluations=%d distinct=%d violations=%d known=%d exhaustive=%v wall=%.1fs\n",
		c.Spec.Engine, c.Prop, c.Tier, res.JobsDone, res.Jobs, evals, res.Distinct, len(unknown), len(all)-len(unknown), exhaustive, wall)
	if truncated {
		fmt.Fprintf(os.Stderr, "note: more than %d violating cases; list truncated\n", maxViolKept)
	}
	if len(unknown) > 0 {
		for _, l := range lines {
			fmt.Println(l)
		}
		return 1
	}
	if (last == nil || last.res == nil) && len(extra) == 0 {
		// could not complete at all and nothing attributed: broken harness
		fmt.Fprintln(os.Stderr, "harness failure: no complete child run")
		return 2
	}
	return 0
}

// ---------------------------------------------------------------- replay

func replayMain(c *Ctx) int {
	key := *fReplay
	if b, err := os.ReadFile(key); err == nil {
		var doc struct {
			Key   string `json:"key"`
			Extra string `json:"extra"`
		}
		if json.Unmarshal(b, &doc) == nil && doc.Key != "" {
			key = doc.Key
			for _, kv := range strings.Split(doc.Extra, ",") {
				if i := strings.IndexByte(kv, '='); i > 0 {
					c.Extra[kv[:i]] = kv[i+1:]
				}
			}
		}
	}
	if c.Spec.Replay == nil {
		fmt.Fprintln(os.Stderr, "engine has no replay")
		return 2
	}
	var vs []Violation
	func() {
		defer func() {
			if r := recover(); r != nil {
				vs = append(vs, Violation{Key: key, Class: "harness-panic", Detail: map[string]any{"panic": fmt.Sprint(r), "stack": string(debug.Stack())}})
			}
		}()
		vs = c.Spec.Replay(c, key)
	}()
	if len(vs) == 0 {
		fmt.Printf("replay: property %s holds on %s\n", c.Prop, key)
		return 0
	}
	for _, v := range vs {
		b, _ := json.MarshalIndent(v, "", " ")
		fmt.Printf("replay: VIOLATED %s\n%s\n", c.Prop, b)
	}
	return 1
}

// Guard runs f and converts a panic of the code under test into (panicked=true, msg).
func Guard(f func()) (panicked bool, msg string) {
	defer func() {
		if r := recover(); r != nil {
			panicked = true
			msg = fmt.Sprint(r)
			if len(msg) > 300 {
				msg = msg[:300]
			}
		}
	}()
	f()
	return
}

// NewReplayWorker returns a worker usable outside the parallel runner (replay mode).
func NewReplayWorker() *Worker { return newWorker(0) }

// Violations returns the violations recorded so far.
func (w *Worker) Violations() []Violation { return w.viol }

// Counter returns a counter value.
func (w *Worker) Counter(name string) int64 { return w.counters[name] }

// Local returns a per-worker cached value (created on first use).
func (w *Worker) Local(key string, mk func() any) any {
	if w.local == nil {
		w.local = map[string]any{}
	}
	v, ok := w.local[key]
	if !ok {
		v = mk()
		w.local[key] = v
	}
	return v
}

// WorkerDump is a serialisable copy of a worker's results (used by engines that run a job in a
// subprocess of their own).
type WorkerDump struct {
	Counters map[string]int64 `json:"counters"`
	Distinct []uint64         `json:"distinct"`
	Samples  []any            `json:"samples"`
	Viol     []Violation      `json:"viol"`
	Notes    map[string]any   `json:"notes"`
}

func (w *Worker) Dump() WorkerDump {
	d := WorkerDump{Counters: w.counters, Samples: w.samples, Viol: w.viol, Notes: w.notes}
	for h := range w.distinct {
		d.Distinct = append(d.Distinct, h)
	}
	return d
}

func (w *Worker) Merge(d WorkerDump) {
	for k, v := range d.Counters {
		w.counters[k] += v
	}
	for _, h := range d.Distinct {
		w.distinct[h] = struct{}{}
	}
	for _, s := range d.Samples {
		w.Sample(s)
	}
	for _, v := range d.Viol {
		w.Violate(v)
	}
	for k, v := range d.Notes {
		w.notes[k] = v
	}
}
