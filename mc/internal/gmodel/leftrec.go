package gmodel

// LeftRecursive decides, independently of the library, whether some production reachable from
// root can re-enter itself before a token is consumed: nullability as a least fixpoint, the
// "left edge" call graph between productions, then a cycle test.
func LeftRecursive(root *Prod) (bool, []string) {
	// collect productions
	var prods []*Prod
	seen := map[*Prod]bool{}
	var collect func(p *Prod)
	collect = func(p *Prod) {
		if seen[p] {
			return
		}
		seen[p] = true
		prods = append(prods, p)
		for _, m := range p.Members {
			collect(m)
		}
		if p.Body != nil {
			p.Body.walk(func(n *Node) {
				if n.K == KSub {
					collect(n.Prod)
				}
			}, map[*Prod]bool{p: true})
		}
	}
	collect(root)
	// nullable fixpoint
	null := map[*Prod]bool{}
	var nodeNull, nodeVals func(n *Node) bool
	// nodeVals: n can succeed without consuming a token AND hand at least one value to its parent (what a
	// non-empty group `( e )!` actually tests: captures and sub-productions yield a value even when they
	// matched nothing, `"a"?` and lookahead groups do not; a repetition whose body matches nothing never
	// succeeds - it runs into the iteration limit).
	nodeVals = func(n *Node) bool {
		switch n.K {
		case KLit, KRef:
			return nodeNull(n)
		case KSeq:
			any := false
			for _, k := range n.Kids {
				if !nodeNull(k) {
					return false
				}
				any = any || nodeVals(k)
			}
			return any
		case KAlt:
			for _, k := range n.Kids {
				if nodeNull(k) && nodeVals(k) {
					return true
				}
			}
			return false
		case KGroup:
			if n.Mode == '*' || n.Mode == '+' {
				return false
			}
			return nodeVals(n.X)
		case KCapture:
			return nodeNull(n.X)
		case KSub:
			return null[n.Prod]
		}
		return false
	}
	nodeNull = func(n *Node) bool {
		switch n.K {
		case KLit:
			return n.Lit == "" && n.Typ == "" // the untyped empty literal matches any token, EOF included
		case KRef:
			return n.Typ == "EOF" // matches at the end of input, where nothing is consumed
		case KNeg:
			return false
		case KSeq:
			for _, k := range n.Kids {
				if !nodeNull(k) {
					return false
				}
			}
			return true
		case KAlt:
			for _, k := range n.Kids {
				if nodeNull(k) {
					return true
				}
			}
			return false
		case KGroup:
			if n.Mode == '?' || n.Mode == '*' {
				return true
			}
			if n.Mode == '!' {
				return nodeVals(n.X)
			}
			return nodeNull(n.X)
		case KLook:
			return true
		case KCapture:
			return nodeNull(n.X)
		case KSub:
			return null[n.Prod]
		}
		return false
	}
	for changed := true; changed; {
		changed = false
		for _, p := range prods {
			v := false
			if p.IsUnion() {
				for _, m := range p.Members {
					if null[m] {
						v = true
					}
				}
			} else {
				v = nodeNull(p.Body)
			}
			if v && !null[p] {
				null[p] = true
				changed = true
			}
		}
	}
	// left-edge calls
	edges := map[*Prod]map[*Prod]bool{}
	var calls func(n *Node, out map[*Prod]bool)
	calls = func(n *Node, out map[*Prod]bool) {
		switch n.K {
		case KSeq:
			for _, k := range n.Kids {
				calls(k, out)
				if !nodeNull(k) {
					return
				}
			}
		case KAlt:
			for _, k := range n.Kids {
				calls(k, out)
			}
		case KGroup, KLook, KCapture, KNeg:
			calls(n.X, out)
		case KSub:
			out[n.Prod] = true
		}
	}
	for _, p := range prods {
		e := map[*Prod]bool{}
		if p.IsUnion() {
			for _, m := range p.Members {
				e[m] = true
			}
		} else {
			calls(p.Body, e)
		}
		edges[p] = e
	}
	// cycle test (DFS colours)
	colour := map[*Prod]int{}
	var cyc []string
	var dfs func(p *Prod) bool
	dfs = func(p *Prod) bool {
		colour[p] = 1
		for q := range edges[p] {
			if colour[q] == 1 {
				cyc = append(cyc, p.Name+"->"+q.Name)
				return true
			}
			if colour[q] == 0 && dfs(q) {
				cyc = append(cyc, p.Name+"->"+q.Name)
				return true
			}
		}
		colour[p] = 2
		return false
	}
	for _, p := range prods {
		if colour[p] == 0 && dfs(p) {
			return true, cyc
		}
	}
	return false, nil
}
