package gmodel

import (
	"fmt"
	"reflect"
	"strings"

	"github.com/alecthomas/participle/v2"

	"github.com/alecthomas/participle/v2/lexer"
)

// Static interface types that carry unions inside generated grammars (reflect.StructOf cannot make
// named interface types).
type (
	U0 interface{}
	U1 interface{}
	U2 interface{}
)

var UnionTypes = []reflect.Type{
	reflect.TypeOf((*U0)(nil)).Elem(),
	reflect.TypeOf((*U1)(nil)).Elem(),
	reflect.TypeOf((*U2)(nil)).Elem(),
}

// IdentType is the token type PIdent consumes (set by the engine that owns the lexer).
var IdentType lexer.TokenType

// PIdent is a user-implemented production (participle.Parseable): one Ident token. The model treats it
// as the production `F0 string "@Ident"`.
type PIdent struct {
	F0 string
}

func (p *PIdent) Parse(lex *lexer.PeekingLexer) error {
	t := lex.Peek()
	if t.Type != IdentType {
		return participleNextMatch
	}
	p.F0 = t.Value
	lex.Next()
	return nil
}

// PNotB is a user-implemented production that takes one Ident token other than "b". Like much hand-written
// code it scribbles on its receiver before it knows whether it matches (the receiver of a NextMatch is
// thrown away by contract) and builds its result by appending. Model: `(?! "b") @Ident`.
type PNotB struct {
	F0 string
}

func (p *PNotB) Parse(lex *lexer.PeekingLexer) error {
	t := lex.Peek()
	if t.Type != IdentType || t.Value == "b" {
		p.F0 = "rejected:" + t.Value
		return participleNextMatch
	}
	p.F0 += t.Value
	lex.Next()
	return nil
}

// RecNode is a DIRECTLY recursive production (reflect.StructOf cannot make one): its fields of its own type
// are plain pointers, no union in between. Model: see gfam.RecursiveCaptures.
type RecNode struct {
	F0 string   `( @Ident "a"`
	N1 *RecNode `@@ "b" ";"`
	F2 string   `| @Ident ( "a"`
	N3 *RecNode `@@ "b" )? )`
}

// PosMixin is embedded into nodes to test position injection through embedded structs.
type PosMixin struct {
	Pos    lexer.Position
	EndPos lexer.Position
	Tokens []lexer.Token
}

// PosDeep1 / PosDeep2 put the mixin one and two levels further down: a production that embeds PosDeep2 has
// its Pos / EndPos / Tokens three embedded structs deep.
type PosDeep1 struct{ PosMixin }
type PosDeep2 struct{ PosDeep1 }

// NamedPos is a position type convertible from lexer.Position (C11: "convertible position types").
type NamedPos lexer.Position

var participleNextMatch = participle.NextMatch

var (
	posT   = reflect.TypeOf(lexer.Position{})
	tokT   = reflect.TypeOf(lexer.Token{})
	toksT  = reflect.TypeOf([]lexer.Token{})
	strT   = reflect.TypeOf("")
	strsT  = reflect.TypeOf([]string{})
	boolT  = reflect.TypeOf(false)
	nposT  = reflect.TypeOf(NamedPos{})
	tcache = map[string]reflect.Type{}
)

// TypeCache is per goroutine (reflect.StructOf itself is safe; the cache only avoids re-walking).
type TypeCache map[*Prod]reflect.Type

// GoType builds (or returns) the Go struct type of a struct production with reflect.StructOf.
func (tc TypeCache) GoType(p *Prod) reflect.Type {
	if t, ok := tc[p]; ok {
		return t
	}
	if p.Static != nil {
		t := reflect.TypeOf(p.Static)
		tc[p] = t
		return t
	}
	if p.IsUnion() {
		t := UnionTypes[p.UnionSlot]
		tc[p] = t
		return t
	}
	var fs []reflect.StructField
	switch {
	case p.PosStyle == 1 && p.HasPos:
		fs = append(fs, reflect.StructField{Name: "PosMixin", Type: reflect.TypeOf(PosMixin{}), Anonymous: true})
	case p.PosStyle == 3 && p.HasPos:
		fs = append(fs, reflect.StructField{Name: "PosDeep2", Type: reflect.TypeOf(PosDeep2{}), Anonymous: true})
	case p.PosStyle == 5 && p.HasPos:
		fs = append(fs, reflect.StructField{Name: "Pos", Type: posT}, reflect.StructField{Name: "EndPos", Type: nposT}, reflect.StructField{Name: "Tokens", Type: toksT})
	case p.PosStyle == 2 && p.HasPos:
		fs = append(fs, reflect.StructField{Name: "Pos", Type: nposT}, reflect.StructField{Name: "EndPos", Type: nposT}, reflect.StructField{Name: "Tokens", Type: toksT})
	default:
		if p.HasPos {
			fs = append(fs, reflect.StructField{Name: "Pos", Type: posT})
		}
		if p.HasEndPos {
			fs = append(fs, reflect.StructField{Name: "EndPos", Type: posT})
		}
		if p.HasTokens {
			fs = append(fs, reflect.StructField{Name: "Tokens", Type: toksT})
		}
	}
	tags := p.Tags()
	for i, f := range p.Fields {
		var ft reflect.Type
		switch f.Kind {
		case FString:
			ft = strT
		case FStrings:
			ft = strsT
		case FBool:
			ft = boolT
		case FTok:
			ft = tokT
		case FToks:
			ft = toksT
		case FNode:
			ft = reflect.PtrTo(tc.GoType(f.Prod))
		case FNodes:
			ft = reflect.SliceOf(reflect.PtrTo(tc.GoType(f.Prod)))
		case FNodeVal:
			ft = tc.GoType(f.Prod)
		case FUnion:
			ft = tc.GoType(f.Prod)
		case FUnions:
			ft = reflect.SliceOf(tc.GoType(f.Prod))
		}
		fs = append(fs, reflect.StructField{Name: f.Name, Type: ft, Tag: reflect.StructTag(tags[i])})
	}
	t := reflect.StructOf(fs)
	tc[p] = t
	return t
}

// Unions lists the union productions reachable from p (each needs a participle.Union option).
func (p *Prod) Unions() []*Prod {
	var out []*Prod
	seen := map[*Prod]bool{}
	var rec func(q *Prod)
	rec = func(q *Prod) {
		if seen[q] {
			return
		}
		seen[q] = true
		if q.IsUnion() {
			out = append(out, q)
			for _, m := range q.Members {
				rec(m)
			}
			return
		}
		for _, f := range q.Fields {
			if f.Prod != nil {
				rec(f.Prod)
			}
		}
	}
	rec(p)
	return out
}

// CompareOpts selects what Compare checks.
type CompareOpts struct {
	Positions bool // Pos / EndPos / Tokens of nodes (C11)
	// NamesElided: the grammar names an elided token type explicitly (Pos is then unspecified by C11).
	NamesElided bool
}

// Compare walks the model tree and the implementation's AST value in parallel and returns a
// description of the first difference ("" = equal).
func (e *Env) Compare(t *Tree, v reflect.Value, o CompareOpts) string {
	return e.cmp(t, v, o, t.Prod.Name)
}

func deref(v reflect.Value) (reflect.Value, bool) {
	for v.Kind() == reflect.Ptr || v.Kind() == reflect.Interface {
		if v.IsNil() {
			return v, false
		}
		v = v.Elem()
	}
	return v, true
}

func (e *Env) cmp(t *Tree, v reflect.Value, o CompareOpts, path string) string {
	v, ok := deref(v)
	if !ok {
		return path + ": nil node, expected " + t.Prod.Name
	}
	p := t.Prod
	if v.Kind() != reflect.Struct {
		return fmt.Sprintf("%s: not a struct (%s)", path, v.Kind())
	}
	if p.Static != nil {
		if v.Type() != reflect.TypeOf(p.Static) {
			return fmt.Sprintf("%s: node type %s, expected %s", path, v.Type(), reflect.TypeOf(p.Static))
		}
	}
	if o.Positions {
		consumed := e.ne(t.Start) < t.End
		if p.HasTokens {
			got := v.FieldByName("Tokens").Interface().([]lexer.Token)
			want := e.T[t.Start:t.End]
			if len(got) != len(want) {
				return fmt.Sprintf("%s.Tokens: %d tokens %v, expected %d %v (raw span [%d,%d))", path, len(got), got, len(want), want, t.Start, t.End)
			}
			for i := range got {
				if got[i] != want[i] {
					return fmt.Sprintf("%s.Tokens[%d]: %#v, expected %#v", path, i, got[i], want[i])
				}
			}
		}
		if p.HasPos && consumed && !o.NamesElided {
			got := reflect.ValueOf(lexer.Position{})
			f := v.FieldByName("Pos")
			got = f.Convert(posT)
			if want := e.T[e.ne(t.Start)].Pos; got.Interface().(lexer.Position) != want {
				return fmt.Sprintf("%s.Pos: %v, expected %v", path, got.Interface(), want)
			}
		}
		if p.HasEndPos && consumed {
			got := v.FieldByName("EndPos").Convert(posT).Interface().(lexer.Position)
			if want := e.T[t.End].Pos; got != want {
				return fmt.Sprintf("%s.EndPos: %v, expected %v", path, got, want)
			}
		}
	}
	for fi, f := range p.Fields {
		fv := v.FieldByName(f.Name)
		fp := path + "." + f.Name
		switch f.Kind {
		case FString:
			want := ""
			for _, c := range t.Caps {
				if c.Field == fi {
					want += strings.Join(c.Vals, "")
				}
			}
			if fv.String() != want {
				return fmt.Sprintf("%s: %q, expected %q", fp, fv.String(), want)
			}
		case FStrings:
			var want []string
			for _, c := range t.Caps {
				if c.Field == fi {
					want = append(want, c.Vals...)
				}
			}
			got := fv.Interface().([]string)
			if len(got) != len(want) {
				return fmt.Sprintf("%s: %q, expected %q", fp, got, want)
			}
			for i := range got {
				if got[i] != want[i] {
					return fmt.Sprintf("%s: %q, expected %q", fp, got, want)
				}
			}
		case FBool:
			want := false
			for _, c := range t.Caps {
				if c.Field == fi && len(c.Vals) > 0 {
					want = true
				}
			}
			if fv.Bool() != want {
				return fmt.Sprintf("%s: %v, expected %v", fp, fv.Bool(), want)
			}
		case FTok:
			want := lexer.Token{}
			for _, c := range t.Caps {
				if c.Field == fi && c.First >= 0 {
					want = e.T[c.First]
				}
			}
			if got := fv.Interface().(lexer.Token); got != want {
				return fmt.Sprintf("%s: %#v, expected %#v", fp, got, want)
			}
		case FToks:
			var want []lexer.Token
			for _, c := range t.Caps {
				if c.Field == fi {
					want = nil
					if c.First >= 0 {
						want = e.T[c.First : c.Last+1]
					}
				}
			}
			got := fv.Interface().([]lexer.Token)
			if len(got) != len(want) {
				return fmt.Sprintf("%s: %v, expected %v", fp, got, want)
			}
			for i := range got {
				if got[i] != want[i] {
					return fmt.Sprintf("%s: %v, expected %v", fp, got, want)
				}
			}
		case FNode, FUnion, FNodeVal:
			var nd *Tree
			for _, c := range t.Caps {
				if c.Field == fi && c.Node != nil {
					nd = c.Node
				}
			}
			if nd == nil {
				if !fv.IsZero() {
					return fmt.Sprintf("%s: %v, expected zero value (no accepted capture wrote it)", fp, fv.Interface())
				}
				continue
			}
			if f.Kind == FUnion {
				// member identity: the dynamic type must be the member's type
				inner, ok := deref(fv)
				if !ok {
					return fp + ": nil, expected " + nd.Prod.Name
				}
				if d := e.cmpMember(nd, inner, o, fp); d != "" {
					return d
				}
				continue
			}
			if d := e.cmp(nd, fv, o, fp); d != "" {
				return d
			}
		case FNodes, FUnions:
			var want []*Tree
			for _, c := range t.Caps {
				if c.Field == fi && c.Node != nil {
					want = append(want, c.Node)
				}
			}
			if fv.Len() != len(want) {
				return fmt.Sprintf("%s: %d elements, expected %d", fp, fv.Len(), len(want))
			}
			for i, nd := range want {
				ip := fmt.Sprintf("%s[%d]", fp, i)
				if f.Kind == FUnions {
					inner, ok := deref(fv.Index(i))
					if !ok {
						return ip + ": nil"
					}
					if d := e.cmpMember(nd, inner, o, ip); d != "" {
						return d
					}
					continue
				}
				if d := e.cmp(nd, fv.Index(i), o, ip); d != "" {
					return d
				}
			}
		}
	}
	return ""
}

// MemberTypes is filled by the explorer: production -> Go type, used to check union member identity.
func (e *Env) cmpMember(nd *Tree, inner reflect.Value, o CompareOpts, path string) string {
	if want, ok := e.memberType[nd.Prod]; ok && inner.Type() != want {
		return fmt.Sprintf("%s: union member of type %s, expected %s (%s)", path, inner.Type(), want, nd.Prod.Name)
	}
	return e.cmp(nd, inner, o, path)
}

// Render produces a canonical text of the model tree (used for outcome hashing and samples).
func (e *Env) Render(t *Tree) string {
	var sb strings.Builder
	e.render(&sb, t)
	return sb.String()
}

func (e *Env) render(sb *strings.Builder, t *Tree) {
	if t == nil {
		sb.WriteString("nil")
		return
	}
	p := t.Prod
	fmt.Fprintf(sb, "%s[%d,%d){", p.Name, t.Start, t.End)
	for fi, f := range p.Fields {
		sb.WriteString(f.Name + ":")
		for _, c := range t.Caps {
			if c.Field != fi {
				continue
			}
			if c.Node != nil {
				e.render(sb, c.Node)
			} else {
				fmt.Fprintf(sb, "%q", c.Vals)
			}
			sb.WriteString(",")
		}
		sb.WriteString(" ")
	}
	sb.WriteString("}")
}

// RenderValue renders an implementation AST value deterministically (pointers are followed, so no
// addresses appear). withPos=false omits lexer positions (C10 compares captured fields only).
func RenderValue(v reflect.Value, withPos bool) string {
	var sb strings.Builder
	renderValue(&sb, v, withPos, 0)
	return sb.String()
}

func renderValue(sb *strings.Builder, v reflect.Value, withPos bool, depth int) {
	if depth > 60 {
		sb.WriteString("...")
		return
	}
	if !v.IsValid() {
		sb.WriteString("<invalid>")
		return
	}
	switch v.Kind() {
	case reflect.Ptr, reflect.Interface:
		if v.IsNil() {
			sb.WriteString("nil")
			return
		}
		if v.Kind() == reflect.Ptr {
			sb.WriteString("&")
		}
		renderValue(sb, v.Elem(), withPos, depth+1)
	case reflect.Struct:
		if v.Type() == tokT {
			t := v.Interface().(lexer.Token)
			if withPos {
				fmt.Fprintf(sb, "<%d %q @%d:%d:%d>", t.Type, t.Value, t.Pos.Offset, t.Pos.Line, t.Pos.Column)
			} else {
				fmt.Fprintf(sb, "<%d %q>", t.Type, t.Value)
			}
			return
		}
		if v.Type() == posT || v.Type().ConvertibleTo(posT) && v.Type().Name() == "NamedPos" {
			if withPos {
				p := v.Convert(posT).Interface().(lexer.Position)
				fmt.Fprintf(sb, "@%d:%d:%d", p.Offset, p.Line, p.Column)
			} else {
				sb.WriteString("@")
			}
			return
		}
		name := v.Type().Name()
		sb.WriteString(name + "{")
		for i := 0; i < v.NumField(); i++ {
			f := v.Type().Field(i)
			if !withPos && (f.Name == "Pos" || f.Name == "EndPos" || f.Name == "Tokens") {
				continue
			}
			sb.WriteString(f.Name + ":")
			renderValue(sb, v.Field(i), withPos, depth+1)
			sb.WriteString(" ")
		}
		sb.WriteString("}")
	case reflect.Slice:
		sb.WriteString("[")
		for i := 0; i < v.Len(); i++ {
			renderValue(sb, v.Index(i), withPos, depth+1)
			sb.WriteString(",")
		}
		sb.WriteString("]")
	case reflect.String:
		fmt.Fprintf(sb, "%q", v.String())
	default:
		fmt.Fprintf(sb, "%v", v.Interface())
	}
}
