package gmodel

import (
	"reflect"
	"strings"

	"github.com/alecthomas/participle/v2/lexer"
)

// Env is the immutable input of one evaluation.
type Env struct {
	T             []lexer.Token // raw stream from Parser.Lex, T[N] = EOF
	N             int
	Elided        map[lexer.TokenType]bool
	Symbols       map[string]lexer.TokenType
	CI            map[lexer.TokenType]bool // case-insensitive token types
	K             int                      // lookahead; < 0 = unlimited
	AllowTrailing bool
	Steps         int64 // node evaluations (reported as model transitions)
	Diag          bool  // the library's own "accepted but did not progress" diagnostic applies
	memberType    map[*Prod]reflect.Type
}

// SetMemberTypes tells Compare the Go type of every production (union member identity check).
func (e *Env) SetMemberTypes(m map[*Prod]reflect.Type) { e.memberType = m }

func NewEnv(toks []lexer.Token, symbols map[string]lexer.TokenType, elide []string, ci []string, k int, allowTrailing bool) *Env {
	e := &Env{T: toks, N: len(toks) - 1, Elided: map[lexer.TokenType]bool{}, Symbols: symbols, CI: map[lexer.TokenType]bool{}, K: k, AllowTrailing: allowTrailing}
	for _, s := range elide {
		e.Elided[symbols[s]] = true
	}
	for _, s := range ci {
		e.CI[symbols[s]] = true
	}
	return e
}

func (e *Env) elided(i int) bool { return i < e.N && e.Elided[e.T[i].Type] }

// ne: first index >= r that is EOF or not elided.
func (e *Env) ne(r int) int {
	for r < e.N && e.elided(r) {
		r++
	}
	return r
}

// cur: number of non-elided tokens before raw index r.
func (e *Env) cur(r int) int {
	c := 0
	for i := 0; i < r && i < e.N; i++ {
		if !e.elided(i) {
			c++
		}
	}
	return c
}

func (e *Env) committed(at, start int) bool {
	return e.K >= 0 && e.cur(at)-e.cur(start) > e.K
}

const (
	sM = iota // match
	sN        // no match, nothing consumed
	sX        // error; r = raw position of the evaluating context when the error surfaced
)

// CapEntry is one deferred capture of the production instance being evaluated.
type CapEntry struct {
	Field       int
	Vals        []string
	First, Last int   // raw indexes of the first / last token matched inside the capture (-1: none)
	Node        *Tree // for @@
}

type result struct {
	st          int
	r           int
	caps        []CapEntry
	nvals       int
	vals        []string
	first, last int
}

func appendCaps(a []CapEntry, b ...CapEntry) []CapEntry {
	if len(b) == 0 {
		return a
	}
	out := make([]CapEntry, 0, len(a)+len(b))
	out = append(out, a...)
	return append(out, b...)
}

func appendVals(a []string, b []string) []string {
	if len(b) == 0 {
		return a
	}
	out := make([]string, 0, len(a)+len(b))
	out = append(out, a...)
	return append(out, b...)
}

func span(f1, l1, f2, l2 int) (int, int) {
	if f1 < 0 {
		return f2, l2
	}
	if f2 < 0 {
		return f1, l1
	}
	return f1, l2
}

// Tree is the generic AST both sides are rendered into.
type Tree struct {
	Prod       *Prod
	Start, End int // raw span [Start, End)
	Caps       []CapEntry
}

func (e *Env) terminal(r int, pred func(t lexer.Token) bool) result {
	for i := r; ; i++ {
		if i >= e.N {
			return result{st: sN}
		}
		if pred(e.T[i]) {
			return result{st: sM, r: i + 1, nvals: 1, vals: []string{e.T[i].Value}, first: i, last: i}
		}
		if !e.elided(i) {
			return result{st: sN}
		}
	}
}

func (e *Env) eval(n *Node, r int) result {
	e.Steps++
	switch n.K {
	case KLit:
		var tt lexer.TokenType
		typed := n.Typ != ""
		if typed {
			tt = e.Symbols[n.Typ]
		}
		return e.terminal(r, func(t lexer.Token) bool {
			if typed && t.Type != tt {
				return false
			}
			if n.Lit == "" {
				return true
			}
			if e.CI[t.Type] {
				return strings.EqualFold(t.Value, n.Lit)
			}
			return t.Value == n.Lit
		})
	case KRef:
		if n.Typ == "EOF" {
			// the EOF token can be named explicitly: it matches at the end of the input (after any elided
			// tokens) without being consumed, and contributes the empty text
			i := r
			for i < e.N && e.elided(i) {
				i++
			}
			if i == e.N {
				return result{st: sM, r: e.N, nvals: 1, vals: []string{""}, first: -1, last: -1}
			}
			return result{st: sN}
		}
		tt := e.Symbols[n.Typ]
		return e.terminal(r, func(t lexer.Token) bool { return t.Type == tt })
	case KSeq:
		out := result{st: sM, r: r, first: -1, last: -1}
		for j, k := range n.Kids {
			res := e.eval(k, out.r)
			switch res.st {
			case sX:
				return result{st: sX, r: res.r}
			case sN:
				if j == 0 {
					return result{st: sN}
				}
				return result{st: sX, r: out.r}
			}
			out.r = res.r
			// out.caps / out.vals were created by this evaluation (they start nil), so appending in place
			// cannot disturb anything another branch still refers to
			out.caps = append(out.caps, res.caps...)
			out.vals = append(out.vals, res.vals...)
			out.nvals += res.nvals
			out.first, out.last = span(out.first, out.last, res.first, res.last)
		}
		return out
	case KAlt:
		return e.alt(r, len(n.Kids), func(i int) result { return e.eval(n.Kids[i], r) })
	case KGroup:
		switch n.Mode {
		case 0:
			return e.eval(n.X, r)
		case '!':
			res := e.eval(n.X, r)
			switch res.st {
			case sX:
				return res
			case sN:
				return result{st: sX, r: r}
			}
			if res.nvals == 0 {
				return result{st: sX, r: res.r}
			}
			return res
		}
		out := result{st: sM, r: r, first: -1, last: -1}
		iters := 0
		for {
			res := e.eval(n.X, out.r)
			if res.st == sX {
				if e.committed(res.r, out.r) {
					return result{st: sX, r: res.r}
				}
				break
			}
			if res.st == sN {
				break
			}
			iters++
			progressed := res.r != out.r
			out.r = res.r
			out.caps = append(out.caps, res.caps...)
			out.vals = append(out.vals, res.vals...)
			out.nvals += res.nvals
			out.first, out.last = span(out.first, out.last, res.first, res.last)
			if n.Mode == '?' {
				break
			}
			if !progressed {
				// nullable repetition body: excluded statically; stop to stay total
				e.Diag = true
				break
			}
		}
		if n.Mode == '+' && iters == 0 {
			return result{st: sN}
		}
		return out
	case KNeg:
		i := e.ne(r)
		if i >= e.N {
			return result{st: sN}
		}
		res := e.eval(n.X, r)
		if res.st == sM {
			return result{st: sX, r: r}
		}
		return result{st: sM, r: i + 1, nvals: 1, vals: []string{e.T[i].Value}, first: i, last: i}
	case KLook:
		res := e.eval(n.X, r)
		if (res.st == sM) != (n.Mode == '=') {
			return result{st: sX, r: r}
		}
		return result{st: sM, r: r, first: -1, last: -1}
	case KCapture:
		res := e.eval(n.X, r)
		if res.st != sM {
			return res
		}
		ce := CapEntry{Field: n.Field, Vals: res.vals, First: res.first, Last: res.last}
		return result{st: sM, r: res.r, caps: appendCaps(res.caps, ce), nvals: 1, first: res.first, last: res.last}
	case KSub:
		res, tree := e.evalProd(n.Prod, r)
		if res.st != sM {
			return res
		}
		ce := CapEntry{Field: n.Field, Node: tree, First: res.first, Last: res.last}
		return result{st: sM, r: res.r, caps: []CapEntry{ce}, nvals: 1, first: res.first, last: res.last}
	}
	panic("kind")
}

// alt is ordered choice with the commit rule; used for alternatives and union members.
func (e *Env) alt(r int, n int, try func(i int) result) result {
	failed := false
	for i := 0; i < n; i++ {
		res := try(i)
		switch res.st {
		case sM:
			if res.r == r && r < e.N {
				e.Diag = true // "branch was accepted but did not progress the lexer"
			}
			return res
		case sX:
			if e.committed(res.r, r) {
				return result{st: sX, r: res.r}
			}
			failed = true
		}
	}
	if failed {
		return result{st: sX, r: r}
	}
	return result{st: sN}
}

// evalProd evaluates a production (struct or union) at r. The returned result carries no captures
// (they are consumed into the tree).
func (e *Env) evalProd(p *Prod, r int) (result, *Tree) {
	e.Steps++
	if p.IsUnion() {
		var tree *Tree
		res := e.alt(r, len(p.Members), func(i int) result {
			rr, t := e.evalProd(p.Members[i], r)
			if rr.st == sM {
				tree = t
			}
			return rr
		})
		return res, tree
	}
	res := e.eval(p.Body, r)
	if res.st != sM {
		return result{st: res.st, r: res.r}, nil
	}
	t := &Tree{Prod: p, Start: r, End: res.r, Caps: res.caps}
	return result{st: sM, r: res.r, nvals: 1, first: res.first, last: res.last}, t
}

// Outcome of the reference semantics for one (grammar, input, configuration).
type Outcome struct {
	Accept bool
	Tree   *Tree
	End    int  // raw cursor after the parse (accepting runs)
	Diag   bool // out of domain at run time (library diagnostic applies)
}

// Parse evaluates the root production; wrapped=true models the extra single-member choice point
// of the Build[any](Union[any](root)) harness wrapper.
func (e *Env) Parse(root *Prod, wrapped bool) Outcome {
	var res result
	var tree *Tree
	if wrapped {
		res = e.alt(0, 1, func(int) result {
			rr, t := e.evalProd(root, 0)
			tree = t
			return rr
		})
	} else {
		res, tree = e.evalProd(root, 0)
	}
	if e.Diag {
		return Outcome{Diag: true}
	}
	if res.st != sM {
		return Outcome{}
	}
	if e.ne(res.r) < e.N && !e.AllowTrailing {
		return Outcome{}
	}
	return Outcome{Accept: true, Tree: tree, End: res.r}
}
