// Package gmodel is the reference semantics of participle's grammar tag language: a grammar AST,
// a pure evaluator over an immutable token slice (captures are a value that is threaded, never
// written to shared structures, so "a capture from an abandoned attempt is visible" cannot be
// expressed), static analyses (nullability, domain exclusions) and the layout of a grammar onto
// Go struct types built with reflect.StructOf.
package gmodel

import (
	"fmt"
	"strconv"
	"strings"
)

type Kind int

const (
	KLit     Kind = iota // "text"[:Type]
	KRef                 // Type
	KSeq                 // e1 e2 ...
	KAlt                 // e1 | e2 ...
	KGroup               // (e) with Mode 0,'?','*','+','!' ; Bracket '[' or '{' for the [e] {e} spellings
	KNeg                 // ~e  (Spell '!' for the legacy !e spelling)
	KLook                // (?= e) / (?! e)   Mode '=' or '!'
	KCapture             // @e -> field
	KSub                 // @@ -> field (production or union)
)

type Node struct {
	K       Kind
	Lit     string
	Typ     string
	Kids    []*Node
	X       *Node
	Mode    byte
	Bracket byte
	Field   int
	Prod    *Prod
}

type FieldKind int

const (
	FString FieldKind = iota
	FStrings
	FBool
	FTok
	FToks
	FNode    // *P
	FNodes   // []*P
	FNodeVal // P
	FUnion   // interface U (static type)
	FUnions  // []U
)

type Field struct {
	Name string
	Kind FieldKind
	Prod *Prod // for node kinds
}

type Prod struct {
	Name      string
	Fields    []Field
	Body      *Node
	Members   []*Prod // union: Body == nil
	HasPos    bool
	HasEndPos bool
	HasTokens bool
	PosStyle  int // 0: direct Pos/EndPos/Tokens fields, 1: embedded PosMixin, 2: NamedPos position type, 3: mixin three embedded structs deep
	UnionSlot int // which static interface type carries this union
	Static    any // non-nil: zero value of a statically declared Go type (recursive families)
}

func (p *Prod) IsUnion() bool { return p.Body == nil && len(p.Members) > 0 }

// ---- constructors

func Lit(s string) *Node         { return &Node{K: KLit, Lit: s} }
func LitT(s, t string) *Node     { return &Node{K: KLit, Lit: s, Typ: t} }
func Ref(t string) *Node         { return &Node{K: KRef, Typ: t} }
func Seq(k ...*Node) *Node       { return &Node{K: KSeq, Kids: k} }
func Alt(k ...*Node) *Node       { return &Node{K: KAlt, Kids: k} }
func Grp(x *Node, m byte) *Node  { return &Node{K: KGroup, X: x, Mode: m} }
func Opt(x *Node) *Node          { return &Node{K: KGroup, X: x, Mode: '?', Bracket: '['} }
func Rep(x *Node) *Node          { return &Node{K: KGroup, X: x, Mode: '*', Bracket: '{'} }
func Neg(x *Node) *Node          { return &Node{K: KNeg, X: x} }
func Look(x *Node, m byte) *Node { return &Node{K: KLook, X: x, Mode: m} }
func Cap(f int, x *Node) *Node   { return &Node{K: KCapture, Field: f, X: x} }
func Sub(f int, p *Prod) *Node   { return &Node{K: KSub, Field: f, Prod: p} }

// ---- static analyses

func (p *Prod) nullable(seen map[*Prod]bool) bool {
	if seen[p] {
		return false
	}
	seen[p] = true
	defer delete(seen, p)
	if p.IsUnion() {
		for _, m := range p.Members {
			if m.nullable(seen) {
				return true
			}
		}
		return false
	}
	return p.Body.nullable(seen)
}

func (n *Node) Nullable() bool { return n.nullable(map[*Prod]bool{}) }

// matchesAtEOFWithoutConsuming: like Nullable, but an explicit EOF reference counts as matching nothing.
func (n *Node) matchesAtEOFWithoutConsuming() bool {
	switch n.K {
	case KRef:
		return n.Typ == "EOF"
	case KLit:
		return n.Lit == "" && n.Typ == "" // the untyped empty literal matches any token, the EOF token included
	case KNeg:
		return false
	case KSeq:
		for _, k := range n.Kids {
			if !k.matchesAtEOFWithoutConsuming() {
				return false
			}
		}
		return true
	case KAlt:
		for _, k := range n.Kids {
			if k.matchesAtEOFWithoutConsuming() {
				return true
			}
		}
		return false
	case KGroup:
		if n.Mode == '?' || n.Mode == '*' {
			return true
		}
		return n.X.matchesAtEOFWithoutConsuming()
	case KLook:
		return true
	case KCapture:
		return n.X.matchesAtEOFWithoutConsuming()
	case KSub:
		return n.Prod.nullable(map[*Prod]bool{})
	}
	return false
}

func (n *Node) nullable(seen map[*Prod]bool) bool {
	switch n.K {
	case KLit, KRef, KNeg:
		return false
	case KSeq:
		for _, k := range n.Kids {
			if !k.nullable(seen) {
				return false
			}
		}
		return true
	case KAlt:
		for _, k := range n.Kids {
			if k.nullable(seen) {
				return true
			}
		}
		return false
	case KGroup:
		switch n.Mode {
		case '?', '*':
			return true
		case '!':
			// the group is satisfied by VALUES, not by consumption: a capture or sub-production that matched
			// nothing still hands a value up
			return n.X.valsOnEmpty(seen)
		}
		return n.X.nullable(seen)
	case KLook:
		return true
	case KCapture:
		return n.X.nullable(seen)
	case KSub:
		return n.Prod.nullable(seen)
	}
	panic("kind")
}

// valsOnEmpty: n can succeed without consuming a token and yield at least one value.
func (n *Node) valsOnEmpty(seen map[*Prod]bool) bool {
	switch n.K {
	case KSeq:
		any := false
		for _, k := range n.Kids {
			if !k.nullable(seen) {
				return false
			}
			any = any || k.valsOnEmpty(seen)
		}
		return any
	case KAlt:
		for _, k := range n.Kids {
			if k.nullable(seen) && k.valsOnEmpty(seen) {
				return true
			}
		}
		return false
	case KGroup:
		if n.Mode == '*' || n.Mode == '+' {
			return false
		}
		return n.X.valsOnEmpty(seen)
	case KCapture:
		return n.X.nullable(seen)
	case KSub:
		return n.Prod.nullable(seen)
	}
	return false
}

func (n *Node) walk(f func(*Node), seen map[*Prod]bool) {
	f(n)
	for _, k := range n.Kids {
		k.walk(f, seen)
	}
	if n.X != nil {
		n.X.walk(f, seen)
	}
	if n.K == KSub {
		n.Prod.walk(f, seen)
	}
}

func (p *Prod) walk(f func(*Node), seen map[*Prod]bool) {
	if seen[p] {
		return
	}
	seen[p] = true
	for _, m := range p.Members {
		m.walk(f, seen)
	}
	if p.Body != nil {
		p.Body.walk(f, seen)
	}
}

// Walk visits every node reachable from the production (each production once).
func (p *Prod) Walk(f func(*Node)) { p.walk(f, map[*Prod]bool{}) }

func (n *Node) contains(pred func(*Node) bool) bool {
	found := false
	n.walk(func(m *Node) {
		if pred(m) {
			found = true
		}
	}, map[*Prod]bool{})
	return found
}

// OutOfDomain returns a non-empty reason when the grammar contains a construct the library
// itself treats as a grammar bug (or whose meaning the documentation leaves open): these are
// excluded from the semantic comparison and counted.
func (p *Prod) OutOfDomain() string {
	reason := ""
	set := func(s string) {
		if reason == "" {
			reason = s
		}
	}
	seenP := map[*Prod]bool{}
	var checkProd func(q *Prod)
	checkProd = func(q *Prod) {
		if seenP[q] {
			return
		}
		seenP[q] = true
		if q.IsUnion() {
			for _, m := range q.Members {
				if m.nullable(map[*Prod]bool{}) {
					set("nullable union member")
				}
				checkProd(m)
			}
			return
		}
		q.Body.walk(func(n *Node) {
			switch n.K {
			case KAlt:
				for _, k := range n.Kids {
					if k.Nullable() {
						set("nullable alternative")
					}
				}
			case KGroup:
				if (n.Mode == '*' || n.Mode == '+') && n.X.Nullable() {
					set("nullable repetition body")
				}
				if (n.Mode == '*' || n.Mode == '+') && n.X.matchesAtEOFWithoutConsuming() {
					set("repetition body that matches at EOF without consuming")
				}
				if n.Mode == '!' && n.X.contains(func(m *Node) bool {
					return (m.K == KCapture && m.X.Nullable()) || (m.K == KSub && m.Prod.nullable(map[*Prod]bool{}))
				}) {
					set("non-empty modifier over a nullable capture")
				}
			case KCapture:
				if n.X.contains(func(m *Node) bool { return m.K == KCapture || m.K == KSub }) {
					set("nested capture")
				}
			case KSub:
				checkProd(n.Prod)
			}
		}, map[*Prod]bool{q: true}) // do not descend into other productions here
	}
	checkProd(p)
	return reason
}

// ---- printing as tag tokens

type tagTok struct {
	s     string
	field int // >= 0: this token starts a capture into that field
}

func quoteLit(s string) string {
	// tag literals: double quoted with Go escapes
	return fmt.Sprintf("%q", s)
}

func (n *Node) toks(out *[]tagTok) {
	add := func(s string) { *out = append(*out, tagTok{s, -1}) }
	switch n.K {
	case KLit:
		s := quoteLit(n.Lit)
		if n.Typ != "" {
			s += ":" + n.Typ
		}
		add(s)
	case KRef:
		add(n.Typ)
	case KSeq:
		for _, k := range n.Kids {
			if k.K == KSeq || k.K == KAlt {
				panic("unbracketed composite inside sequence")
			}
			k.toks(out)
		}
	case KAlt:
		for i, k := range n.Kids {
			if i > 0 {
				add("|")
			}
			if k.K == KAlt {
				panic("unbracketed alternative inside alternative")
			}
			k.toks(out)
		}
	case KGroup:
		switch n.Bracket {
		case '[':
			add("[")
			n.X.toks(out)
			add("]")
		case '{':
			add("{")
			n.X.toks(out)
			add("}")
		default:
			if n.Mode != 0 && (n.X.K == KLit || n.X.K == KRef || n.X.K == KCapture && (n.X.X.K == KLit || n.X.X.K == KRef) || n.X.K == KSub) {
				// modifier directly on a term
				n.X.toks(out)
			} else {
				add("(")
				n.X.toks(out)
				add(")")
			}
			if n.Mode != 0 {
				add(string(n.Mode))
			}
		}
	case KNeg:
		// operand must be a term: literal, reference or group
		s := "~"
		if n.Mode == '!' {
			s = "!"
		}
		add(s)
		if n.X.K == KSeq || n.X.K == KAlt || (n.X.K == KGroup && n.X.Mode != 0 && n.X.Bracket == 0) {
			add("(")
			n.X.toks(out)
			add(")")
		} else {
			n.X.toks(out)
		}
	case KLook:
		add("(?" + string(n.Mode))
		n.X.toks(out)
		add(")")
	case KCapture:
		*out = append(*out, tagTok{"@", n.Field})
		if n.X.K == KSeq || n.X.K == KAlt || (n.X.K == KGroup && n.X.Mode != 0 && n.X.Bracket == 0) || n.X.K == KNeg {
			add("(")
			n.X.toks(out)
			add(")")
		} else {
			n.X.toks(out)
		}
	case KSub:
		*out = append(*out, tagTok{"@@", n.Field})
	}
}

// Tags lays the production body out over its fields (DESIGN Appendix E): the tag of field i starts
// at the first capture into field i (field 0 also gets everything before it) and runs to just
// before the first capture into field i+1.
func (p *Prod) Tags() []string {
	var ts []tagTok
	p.Body.toks(&ts)
	tags := make([]string, len(p.Fields))
	cur := 0
	last := -1
	var b []string
	flush := func() {
		tags[cur] = joinToks(b)
		b = nil
	}
	for _, t := range ts {
		if t.field >= 0 {
			if t.field < last {
				panic(fmt.Sprintf("captures out of field order in %s", p.Name))
			}
			if t.field > cur {
				flush()
				// fields between cur and t.field without captures get no tag (cannot happen by construction)
				cur = t.field
			}
			last = t.field
		}
		b = append(b, t.s)
	}
	flush()
	return tags
}

func joinToks(ts []string) string {
	var sb strings.Builder
	for i, t := range ts {
		if i > 0 && ts[i-1] != "@" && ts[i-1] != "~" {
			sb.WriteByte(' ')
		}
		sb.WriteString(t)
	}
	return sb.String()
}

var fieldKindGo = map[FieldKind]string{FString: "string", FStrings: "[]string", FBool: "bool", FTok: "lexer.Token", FToks: "[]lexer.Token"}

// GoType renders the field's Go type.
func (f Field) GoType() string {
	switch f.Kind {
	case FNode:
		return "*" + f.Prod.Name
	case FNodes:
		return "[]*" + f.Prod.Name
	case FNodeVal:
		return f.Prod.Name
	case FUnion:
		return f.Prod.Name
	case FUnions:
		return "[]" + f.Prod.Name
	}
	return fieldKindGo[f.Kind]
}

// Source renders the grammar as the Go declarations a user would write; it is the canonical,
// human-readable key of a grammar.
func (p *Prod) Source() string {
	var sb strings.Builder
	seen := map[*Prod]bool{}
	var rec func(q *Prod)
	rec = func(q *Prod) {
		if seen[q] {
			return
		}
		seen[q] = true
		if sb.Len() > 0 {
			sb.WriteString("; ")
		}
		if q.IsUnion() {
			fmt.Fprintf(&sb, "union %s =", q.Name)
			for i, m := range q.Members {
				if i > 0 {
					sb.WriteString(" |")
				}
				sb.WriteString(" " + m.Name)
			}
			for _, m := range q.Members {
				rec(m)
			}
			return
		}
		fmt.Fprintf(&sb, "type %s struct {", q.Name)
		switch {
		case q.PosStyle == 1 && q.HasPos:
			sb.WriteString(" PosMixin;")
		case q.PosStyle == 3 && q.HasPos:
			sb.WriteString(" PosDeep2;")
		case q.PosStyle == 5 && q.HasPos:
			sb.WriteString(" Pos lexer.Position; EndPos NamedPos; Tokens []lexer.Token;")
		case q.PosStyle == 2 && q.HasPos:
			sb.WriteString(" Pos NamedPos; EndPos NamedPos; Tokens []lexer.Token;")
		default:
			if q.HasPos {
				sb.WriteString(" Pos lexer.Position;")
			}
			if q.HasEndPos {
				sb.WriteString(" EndPos lexer.Position;")
			}
			if q.HasTokens {
				sb.WriteString(" Tokens []lexer.Token;")
			}
		}
		tags := q.Tags()
		for i, f := range q.Fields {
			fmt.Fprintf(&sb, " %s %s `%s`", f.Name, f.GoType(), tags[i])
			if i < len(q.Fields)-1 {
				sb.WriteString(";")
			}
		}
		sb.WriteString(" }")
		for _, f := range q.Fields {
			if f.Prod != nil {
				rec(f.Prod)
			}
		}
	}
	rec(p)
	return sb.String()
}

// GoDecls renders the grammar as compilable Go type declarations (struct productions only).
func (p *Prod) GoDecls() string {
	var sb strings.Builder
	seen := map[*Prod]bool{}
	var rec func(q *Prod)
	rec = func(q *Prod) {
		if q == nil || seen[q] {
			return
		}
		seen[q] = true
		if q.IsUnion() {
			fmt.Fprintf(&sb, "type %s interface{}\n\n", q.Name)
			for _, m := range q.Members {
				rec(m)
			}
			return
		}
		fmt.Fprintf(&sb, "type %s struct {\n", q.Name)
		if q.HasPos {
			sb.WriteString("\tPos lexer.Position\n")
		}
		if q.HasEndPos {
			sb.WriteString("\tEndPos lexer.Position\n")
		}
		if q.HasTokens {
			sb.WriteString("\tTokens []lexer.Token\n")
		}
		tags := q.Tags()
		for i, f := range q.Fields {
			if strings.ContainsAny(tags[i], "`\n") {
				// not representable as a raw string literal: use an interpreted one
				fmt.Fprintf(&sb, "\t%s %s %s\n", f.Name, f.GoType(), strconv.Quote(tags[i]))
				continue
			}
			fmt.Fprintf(&sb, "\t%s %s `%s`\n", f.Name, f.GoType(), tags[i])
		}
		sb.WriteString("}\n\n")
		for _, f := range q.Fields {
			rec(f.Prod)
		}
	}
	rec(p)
	return sb.String()
}

// HasNullableRepetition reports whether some * or + group has a body that can match nothing (the
// library then iterates up to MaxIterations).
func (p *Prod) HasNullableRepetition() bool {
	found := false
	p.Walk(func(n *Node) {
		if n.K == KGroup && (n.Mode == '*' || n.Mode == '+') && (n.X.Nullable() || n.X.matchesAtEOFWithoutConsuming()) {
			found = true
		}
	})
	return found
}
