// Package remodel is a possessive (never gives characters back) matcher over regexp/syntax trees:
// the documented matching discipline of participle's generated lexers (DESIGN Appendix C). It is
// used to classify the inputs on which generated and runtime lexers are allowed to differ.
package remodel

import (
	"regexp/syntax"
	"unicode"
	"unicode/utf8"
)

// Parse parses a pattern the way the lexer generator does (Perl flags), without simplifying.
func Parse(pat string) (*syntax.Regexp, error) {
	return syntax.Parse(pat, syntax.Perl)
}

// Match returns the end offset of the possessive match of re at the start of s, or -1.
// Empty-width operators see s as a text of its own (nothing before offset 0).
func Match(re *syntax.Regexp, s string) int {
	return m(re, s, 0)
}

func decode(s string, p int) (rune, int) {
	if p >= len(s) {
		return -1, 0
	}
	if s[p] < utf8.RuneSelf {
		return rune(s[p]), 1
	}
	return utf8.DecodeRuneInString(s[p:])
}

func foldEq(a, b rune) bool {
	if a == b {
		return true
	}
	for r := unicode.SimpleFold(a); r != a; r = unicode.SimpleFold(r) {
		if r == b {
			return true
		}
	}
	return false
}

func m(re *syntax.Regexp, s string, p int) int {
	switch re.Op {
	case syntax.OpNoMatch:
		return -1
	case syntax.OpEmptyMatch:
		return p
	case syntax.OpLiteral:
		for _, want := range re.Rune {
			r, n := decode(s, p)
			if n == 0 {
				return -1
			}
			if re.Flags&syntax.FoldCase != 0 {
				if !foldEq(want, r) {
					return -1
				}
			} else if r != want || (r == utf8.RuneError && n == 1 && want != utf8.RuneError) {
				return -1
			}
			p += n
		}
		return p
	case syntax.OpCharClass:
		r, n := decode(s, p)
		if n == 0 {
			return -1
		}
		for i := 0; i+1 < len(re.Rune); i += 2 {
			if r >= re.Rune[i] && r <= re.Rune[i+1] {
				return p + n
			}
		}
		return -1
	case syntax.OpAnyCharNotNL:
		r, n := decode(s, p)
		if n == 0 || r == '\n' {
			return -1
		}
		return p + n
	case syntax.OpAnyChar:
		_, n := decode(s, p)
		if n == 0 {
			return -1
		}
		return p + n
	case syntax.OpBeginLine, syntax.OpEndLine, syntax.OpBeginText, syntax.OpEndText, syntax.OpWordBoundary, syntax.OpNoWordBoundary:
		var before, after rune = -1, -1
		if p > 0 {
			before, _ = utf8.DecodeLastRuneInString(s[:p])
		}
		if p < len(s) {
			after, _ = decode(s, p)
		}
		ctx := syntax.EmptyOpContext(before, after)
		var want syntax.EmptyOp
		switch re.Op {
		case syntax.OpBeginLine:
			want = syntax.EmptyBeginLine
		case syntax.OpEndLine:
			want = syntax.EmptyEndLine
		case syntax.OpBeginText:
			want = syntax.EmptyBeginText
		case syntax.OpEndText:
			want = syntax.EmptyEndText
		case syntax.OpWordBoundary:
			want = syntax.EmptyWordBoundary
		case syntax.OpNoWordBoundary:
			want = syntax.EmptyNoWordBoundary
		}
		if ctx&want != 0 {
			return p
		}
		return -1
	case syntax.OpCapture:
		return m(re.Sub[0], s, p)
	case syntax.OpStar, syntax.OpPlus:
		n := 0
		for {
			np := m(re.Sub[0], s, p)
			if np == -1 {
				break
			}
			n++
			if np == p {
				break // an empty iteration ends the loop
			}
			p = np
		}
		if re.Op == syntax.OpPlus && n == 0 {
			return -1
		}
		return p
	case syntax.OpQuest:
		if np := m(re.Sub[0], s, p); np != -1 {
			return np
		}
		return p
	case syntax.OpRepeat:
		n := 0
		for re.Max < 0 || n < re.Max {
			np := m(re.Sub[0], s, p)
			if np == -1 {
				break
			}
			n++
			if np == p && n >= re.Min {
				break
			}
			p = np
		}
		if n < re.Min {
			return -1
		}
		return p
	case syntax.OpConcat:
		for _, sub := range re.Sub {
			if p = m(sub, s, p); p == -1 {
				return -1
			}
		}
		return p
	case syntax.OpAlternate:
		for _, sub := range re.Sub {
			if np := m(sub, s, p); np != -1 {
				return np
			}
		}
		return -1
	}
	panic("remodel: unknown op " + re.Op.String())
}

// HasNonGreedy reports whether the tree contains a non-greedy operator (unsupported by the generator).
func HasNonGreedy(re *syntax.Regexp) bool {
	if re.Flags&syntax.NonGreedy != 0 && (re.Op == syntax.OpStar || re.Op == syntax.OpPlus || re.Op == syntax.OpQuest || re.Op == syntax.OpRepeat) {
		return true
	}
	for _, s := range re.Sub {
		if HasNonGreedy(s) {
			return true
		}
	}
	return false
}

// Nullable reports whether the tree can match the empty string.
func Nullable(re *syntax.Regexp) bool {
	switch re.Op {
	case syntax.OpNoMatch, syntax.OpLiteral, syntax.OpCharClass, syntax.OpAnyChar, syntax.OpAnyCharNotNL:
		return re.Op == syntax.OpLiteral && len(re.Rune) == 0
	case syntax.OpEmptyMatch, syntax.OpBeginLine, syntax.OpEndLine, syntax.OpBeginText, syntax.OpEndText, syntax.OpWordBoundary, syntax.OpNoWordBoundary, syntax.OpStar, syntax.OpQuest:
		return true
	case syntax.OpCapture, syntax.OpPlus:
		return Nullable(re.Sub[0])
	case syntax.OpRepeat:
		return re.Min == 0 || Nullable(re.Sub[0])
	case syntax.OpConcat:
		for _, s := range re.Sub {
			if !Nullable(s) {
				return false
			}
		}
		return true
	case syntax.OpAlternate:
		for _, s := range re.Sub {
			if Nullable(s) {
				return true
			}
		}
		return false
	}
	return false
}
