// Package ebnffam enumerates the grammars for the EBNF round-trip property (C14).
package ebnffam

import (
	"fmt"

	"verif/mc/internal/gfam"
	g "verif/mc/internal/gmodel"
)

type Item struct {
	ID     string
	Family string
	Root   *g.Prod
}

func lit(s string) gfam.LeafFn { return func() *g.Node { return g.Lit(s) } }

// rename gives every production of the grammar a unique Go type name.
func rename(root *g.Prod, prefix string) {
	seen := map[*g.Prod]bool{}
	var rec func(p *g.Prod)
	rec = func(p *g.Prod) {
		if p == nil || seen[p] {
			return
		}
		seen[p] = true
		p.Name = prefix + p.Name
		for _, m := range p.Members {
			rec(m)
		}
		for _, f := range p.Fields {
			rec(f.Prod)
		}
	}
	rec(root)
}

func Items(quick bool) []Item {
	var out []Item
	add := func(family string, body *g.Node) {
		id := fmt.Sprintf("e%05d", len(out))
		root := gfam.AssignOwn("G", body)
		if root.OutOfDomain() == "nested capture" {
			return
		}
		rename(root, "T"+id)
		out = append(out, Item{ID: id, Family: family, Root: root})
	}
	mods := []byte{'?', '*', '+', '!'}
	atoms := []gfam.LeafFn{
		lit("a"),
		func() *g.Node { return g.Ref("Ident") },
		func() *g.Node { return g.Seq(g.Lit("a"), g.Lit("b")) },
		func() *g.Node { return g.Alt(g.Lit("a"), g.Ref("Ident")) },
		func() *g.Node { return gfam.CapMark(g.Ref("Ident")) },
		func() *g.Node { return gfam.CapMark(g.Seq(g.Lit("a"), g.Ref("Ident"))) },
	}
	// two stacked modifiers through a group, bracket spellings
	for _, a := range atoms {
		for _, m1 := range mods {
			add("nest", g.Seq(g.Grp(a(), m1), g.Lit("b")))
			for _, m2 := range mods {
				add("nest", g.Seq(g.Grp(g.Grp(a(), m1), m2), g.Lit("b")))
			}
			add("nest", g.Seq(g.Opt(g.Grp(a(), m1)), g.Lit("b")))
			add("nest", g.Seq(g.Rep(g.Grp(a(), m1)), g.Lit("b")))
			add("nest", g.Seq(g.Grp(g.Opt(a()), m1), g.Lit("b")))
		}
	}
	// modified / negated terms behind two layers that print nothing themselves (plain groups, captures)
	plain := func(x *g.Node) *g.Node { return g.Grp(x, 0) }
	capt := func(x *g.Node) *g.Node { return gfam.CapMark(x) }
	layers := []func(*g.Node) *g.Node{plain, capt}
	for _, w1 := range layers {
		for _, w2 := range layers {
			for _, m1 := range mods {
				for _, m2 := range mods {
					add("layers", g.Seq(g.Grp(w1(w2(g.Grp(g.Lit("a"), m1))), m2), g.Lit("b")))
				}
				add("layers", g.Seq(g.Neg(w1(w2(g.Grp(g.Lit("a"), m1)))), g.Lit("b")))
				add("layers", g.Seq(g.Look(w1(w2(g.Grp(g.Lit("a"), m1))), '!'), g.Lit("b")))
			}
			add("layers", g.Seq(g.Neg(w1(w2(g.Neg(g.Lit("a"))))), g.Lit("b")))
			add("layers", g.Seq(g.Neg(w1(w2(plain(g.Neg(g.Ref("Ident")))))), g.Lit("b")))
		}
	}
	// ~, (?= ), (?! ) applied to literals, references, groups and modified terms; modifiers on them
	wraps := []func(x *g.Node) *g.Node{
		func(x *g.Node) *g.Node { return g.Neg(x) },
		func(x *g.Node) *g.Node { return g.Look(x, '=') },
		func(x *g.Node) *g.Node { return g.Look(x, '!') },
	}
	for _, a := range atoms[:4] {
		for wi, wf := range wraps {
			add("wrap", g.Seq(wf(a()), g.Ref("Ident")))
			for _, m := range mods {
				add("wrap", g.Seq(wf(g.Grp(a(), m)), g.Ref("Ident")))
				if wi == 0 || m == '?' {
					add("wrap", g.Seq(g.Grp(wf(a()), m), g.Ref("Ident")))
				}
			}
			for _, wf2 := range wraps {
				add("wrap", g.Seq(wf(g.Grp(wf2(a()), 0)), g.Ref("Ident")))
			}
			add("wrap", g.Seq(gfam.CapMark(g.Neg(a())), g.Grp(wf(a()), 0)))
		}
	}
	// literals that need escaping, typed literals
	for _, s := range []string{"a", `"`, `\`, "\n", "é", "'", "\t", "日本", "a b", "<", "=", ".", "|", "~", "%", "%d%s", "100%", "`", "a`b"} {
		add("literal", g.Seq(g.Lit(s), gfam.CapMark(g.Lit(s))))
		add("literal", g.Alt(g.LitT(s, "Ident"), g.Grp(g.Lit(s), '*')))
	}
	add("literal", g.Seq(g.LitT("", "Ident"), g.Ref("Ident")))
	add("literal", g.Seq(g.Ref("Punct"), g.Ref("Int"), g.Ref("Comment"), g.Ref("NL")))
	// sub-productions, nested
	sub := func() *g.Prod {
		return gfam.AssignOwn("S", g.Seq(gfam.CapMark(g.Ref("Ident")), g.Grp(g.Lit("b"), '?')))
	}
	sub2 := func() *g.Prod {
		return gfam.AssignOwn("D", g.Seq(g.Lit("a"), g.Sub(-1, gfam.AssignOwn("E", gfam.CapMark(g.Ref("Ident"))))))
	}
	for _, m := range []byte{0, '?', '*', '+'} {
		add("sub", g.Seq(g.Grp(g.Sub(-1, sub()), m), g.Lit(";")))
		add("sub", g.Seq(g.Grp(g.Sub(-1, sub2()), m), g.Lit(";")))
		s := sub()
		add("sub", g.Seq(g.Grp(g.Sub(-1, s), m), g.Lit(";"), g.Grp(g.Sub(-1, s), m))) // the same production referenced twice
		add("sub", g.Seq(g.Look(g.Sub(-1, sub()), '='), g.Grp(g.Sub(-1, sub2()), m)))
	}
	// a slice of the core family
	leaves := []gfam.LeafFn{lit("a"), func() *g.Node { return gfam.CapMark(g.Ref("Ident")) }, func() *g.Node { return g.Grp(g.Lit("b"), '*') }, func() *g.Node { return g.Grp(gfam.CapMark(g.Lit("a")), '?') }}
	ts := gfam.Top(gfam.Terms(2, leaves))
	t3 := gfam.Top(gfam.Terms(3, leaves))
	step := 1
	if quick {
		step = 16
	}
	for _, f := range ts {
		add("core2", f())
	}
	for i, f := range t3 {
		if i%step == 0 {
			add("core3", f())
		}
	}
	return out
}
