// Package lexmodel is the reference semantics of participle's stateful lexer (DESIGN Appendix B):
// a pure function from (rule map, input) to the token list / error position. Go's regexp is the
// trusted primitive for "does pattern p match at the start of this text and how long"; all control
// (ordering, include splicing, the state stack, back-reference substitution, elision, error
// conditions) is independent code.
package lexmodel

import (
	"regexp"
	"strings"
	"unicode"
	"unicode/utf8"

	"github.com/alecthomas/participle/v2/lexer"
)

type Act int

const (
	None Act = iota
	Push
	Pop
	Include
	Return
)

type Rule struct {
	Name    string
	Pattern string
	Act     Act
	State   string
}

type Def map[string][]Rule

// ToRules converts to the library's rule map.
func (d Def) ToRules() lexer.Rules {
	out := lexer.Rules{}
	for st, rs := range d {
		var l []lexer.Rule
		for _, r := range rs {
			switch r.Act {
			case None:
				l = append(l, lexer.Rule{Name: r.Name, Pattern: r.Pattern})
			case Push:
				l = append(l, lexer.Rule{Name: r.Name, Pattern: r.Pattern, Action: lexer.Push(r.State)})
			case Pop:
				l = append(l, lexer.Rule{Name: r.Name, Pattern: r.Pattern, Action: lexer.Pop()})
			case Include:
				l = append(l, lexer.Include(r.State))
			case Return:
				l = append(l, lexer.Return())
			}
		}
		out[st] = l
	}
	return out
}

// String renders the definition canonically (states sorted: Root first, then by name).
func (d Def) String() string {
	var names []string
	for n := range d {
		if n != "Root" {
			names = append(names, n)
		}
	}
	sortStrings(names)
	names = append([]string{"Root"}, names...)
	var sb strings.Builder
	for i, n := range names {
		if i > 0 {
			sb.WriteString(" ; ")
		}
		sb.WriteString(n + ":")
		for _, r := range d[n] {
			sb.WriteString(" ")
			switch r.Act {
			case Include:
				sb.WriteString("Include(" + r.State + ")")
			case Return:
				sb.WriteString("Return()")
			default:
				sb.WriteString("{" + r.Name + " /" + r.Pattern + "/")
				if r.Act == Push {
					sb.WriteString(" Push(" + r.State + ")")
				}
				if r.Act == Pop {
					sb.WriteString(" Pop")
				}
				sb.WriteString("}")
			}
		}
	}
	return sb.String()
}

func sortStrings(a []string) {
	for i := 1; i < len(a); i++ {
		for j := i; j > 0 && a[j] < a[j-1]; j-- {
			a[j], a[j-1] = a[j-1], a[j]
		}
	}
}

// expand splices includes in place, recursively.
func (d Def) expand(state string, depth int) []Rule {
	var out []Rule
	for _, r := range d[state] {
		if r.Act == Include {
			if depth > 8 {
				continue
			}
			out = append(out, d.expand(r.State, depth+1)...)
			continue
		}
		out = append(out, r)
	}
	return out
}

// HasIncludeCycle reports cyclic includes (the constructor never terminates on those).
func (d Def) HasIncludeCycle() bool {
	var visit func(s string, stack map[string]bool) bool
	visit = func(s string, stack map[string]bool) bool {
		if stack[s] {
			return true
		}
		stack[s] = true
		defer delete(stack, s)
		for _, r := range d[s] {
			if r.Act == Include && visit(r.State, stack) {
				return true
			}
		}
		return false
	}
	for s := range d {
		if visit(s, map[string]bool{}) {
			return true
		}
	}
	return false
}

type Tok struct {
	Name  string
	Value string
	Off   int
}

type Result struct {
	Toks      []Tok
	ErrOff    int  // -1: no error
	Underflow bool // a Pop/Return emptied the stack: the statement defines nothing from here on
	Steps     int
	EndOff    int
	MaxDepth  int    // deepest state stack reached
	StackSig  string // the states of that deepest stack
}

// Elided reports whether a rule name starts with a lower-case letter.
func Elided(name string) bool {
	if name == "" {
		return false
	}
	r, _ := utf8.DecodeRuneInString(name)
	return unicode.IsLower(r)
}

// substitute replaces every \N preceded by an odd run of backslashes by the quoted N-th group.
// ok=false when N names a group the entering rule did not capture. hasRef reports whether the
// pattern contains any such reference.
func substitute(pat string, groups []string) (out string, hasRef bool, ok bool) {
	var sb strings.Builder
	ok = true
	i := 0
	for i < len(pat) {
		if pat[i] != '\\' {
			sb.WriteByte(pat[i])
			i++
			continue
		}
		j := i
		for j < len(pat) && pat[j] == '\\' {
			j++
		}
		run := j - i
		if j < len(pat) && pat[j] >= '0' && pat[j] <= '9' && run%2 == 1 {
			hasRef = true
			n := int(pat[j] - '0')
			sb.WriteString(pat[i : j-1]) // the escaped backslashes before the reference
			if n >= len(groups) {
				ok = false
			} else {
				sb.WriteString(regexp.QuoteMeta(groups[n]))
			}
			i = j + 1
			continue
		}
		sb.WriteString(pat[i:j])
		i = j
	}
	return sb.String(), hasRef, ok
}

type frame struct {
	state  string
	groups []string
}

type Model struct {
	def      Def
	expanded map[string][]Rule
	cache    map[string]*regexp.Regexp
}

func New(d Def) *Model {
	m := &Model{def: d, expanded: map[string][]Rule{}, cache: map[string]*regexp.Regexp{}}
	for s := range d {
		m.expanded[s] = d.expand(s, 0)
	}
	return m
}

func (m *Model) re(p string) *regexp.Regexp {
	if r, ok := m.cache[p]; ok {
		return r
	}
	r, err := regexp.Compile(`^(?:` + p + `)`)
	if err != nil {
		r = nil
	}
	m.cache[p] = r
	return r
}

// Lex runs the reference lexer.
func (m *Model) Lex(in string) Result {
	res := Result{ErrOff: -1}
	stack := []frame{{state: "Root"}}
	off := 0
	for off < len(in) {
	restart:
		res.Steps++
		top := stack[len(stack)-1]
		rules := m.expanded[top.state]
		var sel *Rule
		var loc []int
		for i := range rules {
			r := &rules[i]
			if r.Act == Return {
				if len(stack) == 1 {
					res.Underflow = true
					res.EndOff = off
					return res
				}
				stack = stack[:len(stack)-1]
				goto restart
			}
			pat, hasRef, ok := substitute(r.Pattern, top.groups)
			if hasRef && !ok {
				res.ErrOff = off
				return res
			}
			re := m.re(pat)
			if re == nil {
				// a substituted pattern that does not compile: error at this position
				res.ErrOff = off
				return res
			}
			if l := re.FindStringSubmatchIndex(in[off:]); l != nil {
				sel, loc = r, l
				break
			}
		}
		if sel == nil {
			res.ErrOff = off
			return res
		}
		if loc[1] == 0 {
			res.ErrOff = off
			return res
		}
		text := in[off : off+loc[1]]
		switch sel.Act {
		case Push:
			var groups []string
			for g := 0; g < len(loc); g += 2 {
				if loc[g] < 0 {
					groups = append(groups, "")
				} else {
					groups = append(groups, in[off+loc[g]:off+loc[g+1]])
				}
			}
			stack = append(stack, frame{state: sel.State, groups: groups})
			if len(stack) > res.MaxDepth {
				res.MaxDepth = len(stack)
				sig := ""
				for _, f := range stack {
					sig += f.state + ">"
				}
				res.StackSig = sig
			}
		case Pop:
			if len(stack) == 1 {
				// popping the last state: nothing is defined from here on (the token itself is not predicted either)
				res.Underflow = true
				res.EndOff = off
				return res
			}
			stack = stack[:len(stack)-1]
		}
		if !Elided(sel.Name) {
			res.Toks = append(res.Toks, Tok{Name: sel.Name, Value: text, Off: off})
		}
		off += len(text)
	}
	res.EndOff = off
	return res
}

// Expanded returns the rule list of a state with includes spliced in place.
func (m *Model) Expanded(state string) []Rule { return m.expanded[state] }
