// Package gramreg is the registry for statically generated grammar types (properties that need
// named Go types: Parser.String()).
package gramreg

import "github.com/alecthomas/participle/v2/lexer"

var Lexer = lexer.MustSimple([]lexer.SimpleRule{
	{Name: "Ident", Pattern: `[a-zA-Z]`},
	{Name: "Int", Pattern: `[0-9]`},
	{Name: "Punct", Pattern: `;`},
	{Name: "Space", Pattern: ` `},
	{Name: "Comment", Pattern: `#`},
	{Name: "NL", Pattern: `\n`},
})

// Entry builds the parser for one generated grammar and returns Parser.String().
type Entry func() (string, error)

var Entries = map[string]Entry{}

func Register(id string, e Entry) { Entries[id] = e }
