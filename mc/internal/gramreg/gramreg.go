// Package gramreg is the registry for statically generated grammar types (properties that need
// named Go types: Parser.String()).
package gramreg

import (
	"github.com/alecthomas/participle/v2"
	"github.com/alecthomas/participle/v2/lexer"
)

var Lexer = lexer.MustSimple([]lexer.SimpleRule{
	{Name: "Ident", Pattern: `[a-zA-Z]`},
	{Name: "Int", Pattern: `[0-9]`},
	{Name: "Punct", Pattern: `;`},
	{Name: "Space", Pattern: ` `},
	{Name: "Comment", Pattern: `#`},
	{Name: "NL", Pattern: `\n`},
})

// Entry builds the parser for one generated grammar and returns Parser.String().
type Entry func() (string, error)

var Entries = map[string]Entry{}

func Register(id string, e Entry) { Entries[id] = e }

// HistoryError reports that Parser.String() changed with the history of the parser.
type HistoryError struct{ Fresh, AfterUse, FirstAfterUse string }

func (h *HistoryError) Error() string { return "Parser.String() depends on what the parser did before" }

// UseInputs fail (or succeed) at different places of most small grammars over this lexer.
var UseInputs = []string{"a", "a a", "5", ";", "a ; a", "", "a 5 ;", "# a", "b a 5 5", "a ; ; 5 b"}

func use[T any](p *participle.Parser[T]) {
	for _, in := range UseInputs {
		func() {
			defer func() { _ = recover() }()
			if _, err := p.ParseString("f", in); err != nil {
				_ = err.Error() // formatting an error renders parts of the grammar
			}
		}()
	}
}

// Describe returns Parser.String() of a freshly built parser for T and checks that it is the same after the
// parser has been used (parses, formatted errors), and on a second parser whose first String() call comes
// only after such use.
func Describe[T any](opts ...participle.Option) (string, error) {
	opts = append([]participle.Option{participle.Lexer(Lexer)}, opts...)
	p, err := participle.Build[T](opts...)
	if err != nil {
		return "", err
	}
	fresh := p.String()
	use(p)
	after := p.String()
	q, err := participle.Build[T](opts...)
	if err != nil {
		return "", err
	}
	use(q)
	first := q.String()
	if fresh != after || fresh != first {
		return fresh, &HistoryError{fresh, after, first}
	}
	return fresh, nil
}
