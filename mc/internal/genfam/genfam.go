// Package genfam enumerates the lexer definitions for the generated-vs-runtime differential (C05).
package genfam

import (
	"fmt"
	"regexp/syntax"
	"sort"

	"verif/mc/internal/lexfam"
	m "verif/mc/internal/lexmodel"
	"verif/mc/internal/remodel"
)

type Item struct {
	ID       string // stable within one enumeration: family + index
	Family   string
	Def      m.Def
	Alphabet []string
	MaxLen   int
	Pattern  string // operator family: the pattern under test
}

var atomsFull = []string{`a`, `b`, `ab`, `é`, `[ab]`, `[^a]`, `[a-bé]`, `.`, `(?s:.)`, `^`, `$`, `\b`, `\B`, `(?i:a)`, `(?m:$)`, `(?m:^)`, `\z`}
var atomsSmall = []string{`a`, `b`, `é`, `.`, `\b`, `[^a]`}

func unary(x string) []string {
	g := `(?:` + x + `)`
	return []string{g + `*`, g + `+`, g + `?`, g + `{2}`, g + `{1,2}`, `(` + x + `)`}
}

func binary(x, y string) []string {
	return []string{`(?:` + x + `)(?:` + y + `)`, `(?:` + x + `)|(?:` + y + `)`}
}

func level1(atoms []string) []string {
	var out []string
	for _, a := range atoms {
		out = append(out, unary(a)...)
	}
	for _, a := range atoms {
		for _, b := range atoms {
			out = append(out, binary(a, b)...)
		}
	}
	return out
}

func level2(atoms []string) []string {
	l1 := level1(atoms)
	var out []string
	for _, x := range l1 {
		out = append(out, unary(x)...)
	}
	for _, x := range l1 {
		for _, a := range atoms {
			out = append(out, binary(x, a)...)
			out = append(out, binary(a, x)...)
		}
	}
	return out
}

// Patterns returns the de-duplicated (by simplified tree), supported (non-nullable) patterns.
func Patterns(quick bool) []string {
	var all []string
	all = append(all, atomsFull...)
	all = append(all, level1(atomsFull)...)
	if quick {
		all = append(all, level2(atomsSmall)...)
	} else {
		all = append(all, level2(append(append([]string{}, atomsSmall...), `$`, `^`, `(?i:a)`, `[ab]`))...)
		// 3-operator trees: unary over, and binary with, level2 of a small atom set
		l2 := level2([]string{`a`, `.`, `\b`, `é`})
		for _, x := range l2 {
			all = append(all, unary(x)...)
			all = append(all, binary(x, `a`)...)
			all = append(all, binary(`.`, x)...)
		}
	}
	seen := map[string]bool{}
	var out []string
	for _, p := range all {
		re, err := syntax.Parse(p, syntax.Perl)
		if err != nil {
			continue
		}
		if remodel.Nullable(re) {
			continue
		}
		k := re.Simplify().String()
		if seen[k] {
			continue
		}
		seen[k] = true
		out = append(out, p)
	}
	return out
}

func catchAll() []m.Rule {
	return []m.Rule{{Name: "A", Pattern: `a`}, {Name: "B", Pattern: `b`}, {Name: "E", Pattern: `é`}, {Name: "N", Pattern: `\n`}}
}

func noBackref(d m.Def) bool {
	for _, rs := range d {
		for _, r := range rs {
			for i := 0; i+1 < len(r.Pattern); i++ {
				if r.Pattern[i] == '\\' && r.Pattern[i+1] >= '0' && r.Pattern[i+1] <= '9' {
					return false
				}
			}
		}
	}
	return true
}

func supported(d m.Def) bool {
	if !noBackref(d) || d.HasIncludeCycle() {
		return false
	}
	for _, rs := range d {
		for _, r := range rs {
			if r.Act == m.Include || r.Act == m.Return {
				continue
			}
			re, err := syntax.Parse(r.Pattern, syntax.Perl)
			if err != nil || remodel.Nullable(re) || remodel.HasNonGreedy(re) {
				return false
			}
		}
	}
	return true
}

func thin(fam lexfam.Family, every int, name string, maxLen int) []Item {
	var out []Item
	n := 0
	for i, d := range fam.Defs {
		if !supported(d) {
			continue
		}
		n++
		if n%every != 0 {
			continue
		}
		out = append(out, Item{Family: name, Def: d, Alphabet: fam.Alphabet, MaxLen: maxLen, ID: fmt.Sprintf("%s%05d", name, i)})
	}
	return out
}

func Items(quick bool) []Item {
	var out []Item
	for i, p := range Patterns(quick) {
		rules := append([]m.Rule{{Name: "T", Pattern: p}}, catchAll()...)
		out = append(out, Item{ID: fmt.Sprintf("op%05d", i), Family: "operator", Def: m.Def{"Root": rules}, Alphabet: []string{"a", "b", "é", "\n", "\xc3"}, MaxLen: 5, Pattern: p})
		// the same tree below a catch-all for one character, and elided (lower-case name)
		if i%7 == 0 {
			rules2 := append([]m.Rule{{Name: "A", Pattern: `a`}, {Name: "t", Pattern: p}}, catchAll()[1:]...)
			out = append(out, Item{ID: fmt.Sprintf("oq%05d", i), Family: "operator-elided", Def: m.Def{"Root": rules2}, Alphabet: []string{"a", "b", "é", "\n", "\xc3"}, MaxLen: 5, Pattern: p})
		}
	}
	// patterns written with RAW control characters (a Go interpreted string "[\r\n]+"), not regexp escapes
	out = append(out, Item{ID: "raw00000", Family: "raw-control-characters", Def: m.Def{"Root": {
		{Name: "NL", Pattern: "[\r\n]+x?"}, {Name: "Comment", Pattern: "#[^\n]*"}, {Name: "Tab", Pattern: "\ta*"}, {Name: "A", Pattern: `a`}, {Name: "B", Pattern: `b`}}},
		Alphabet: []string{"a", "b", "\n", "\r", "#", "\t", "x"}, MaxLen: 4})
	every := 1
	if quick {
		every = 12
	}
	out = append(out, thin(lexfam.Stack(true), every*3, "stack", 4)...)
	out = append(out, thin(lexfam.Includes(true), every*3, "include", 4)...)
	out = append(out, thin(lexfam.Names(true), every/4+1, "names", 4)...)
	// the definitions with names that collide with something built in (a rule called EOF, a state called "")
	// are always in, whatever the thinning picks
	{
		nf := lexfam.Names(true)
		have := map[string]bool{}
		for _, it := range out {
			have[it.ID] = true
		}
		for i := len(nf.Defs) - 6; i < len(nf.Defs); i++ {
			if id := fmt.Sprintf("names%05d", i); i >= 0 && !have[id] && supported(nf.Defs[i]) {
				out = append(out, Item{Family: "names", Def: nf.Defs[i], Alphabet: nf.Alphabet, MaxLen: 4, ID: id})
			}
		}
	}
	out = append(out, thin(lexfam.Positions(true), every/2+1, "positions", 4)...)
	sort.SliceStable(out, func(i, j int) bool { return out[i].Family < out[j].Family })
	return out
}
