// Package gfam enumerates the grammar families of DESIGN.md §3.4. Every family is a deterministic
// list; nothing is sampled.
package gfam

import (
	"fmt"

	g "verif/mc/internal/gmodel"
)

// Grammar is one enumerated program together with its input space and configuration space.
type Grammar struct {
	Family      string
	Root        *g.Prod
	Elide       []string
	CI          []string
	Alphabet    string // characters of the input alphabet (each is one token)
	MaxLen      int
	NamesElided bool
	Positions   bool
	HasNegLook  bool     // contains ~ or lookahead groups (excluded from C13)
	Spaced      bool     // inputs are token strings re-spaced with elided runs (C10/C11 families)
	Fills       []string // what may be put into each gap (start, between tokens, end)
	SpacedLen   int      // token strings up to this length get every fill assignment
	Lookaheads  []int    // nil = all six
	Mapper      bool     // the parser gets a Map option that lengthens the value of Ident tokens "c"
}

func (gr *Grammar) Key() string { return gr.Family + " :: " + gr.Root.Source() }

// ---------- term construction helpers

func clone(n *g.Node) *g.Node {
	if n == nil {
		return nil
	}
	c := *n
	c.X = clone(n.X)
	if n.Kids != nil {
		c.Kids = make([]*g.Node, len(n.Kids))
		for i, k := range n.Kids {
			c.Kids[i] = clone(k)
		}
	}
	return &c
}

// capMark is a capture whose field is assigned later.
func capMark(x *g.Node) *g.Node { return g.Cap(-1, x) }

type leafSpec struct {
	mk func() *g.Node
}

func withMods(atoms []func() *g.Node, mods []byte) []func() *g.Node {
	var out []func() *g.Node
	for _, a := range atoms {
		a := a
		for _, m := range mods {
			m := m
			if m == 0 {
				out = append(out, a)
			} else {
				out = append(out, func() *g.Node { return g.Grp(a(), m) })
			}
		}
	}
	return out
}

func isComposite(n *g.Node) bool { return n.K == g.KSeq || n.K == g.KAlt }

// wrap returns the ways a sub-term can appear as an operand of a sequence/alternative.
func wrap(t func() *g.Node, mods []byte) []func() *g.Node {
	if !isComposite(t()) {
		return []func() *g.Node{t}
	}
	var out []func() *g.Node
	for _, m := range mods {
		m := m
		out = append(out, func() *g.Node { return g.Grp(t(), m) })
	}
	return out
}

var allMods = []byte{0, '?', '*', '+', '!'}

// terms enumerates every term with exactly n leaves: all bracketings of sequence/alternation,
// every group modifier on every composite operand.
func terms(n int, leaves []func() *g.Node, memo map[int][]func() *g.Node) []func() *g.Node {
	if r, ok := memo[n]; ok {
		return r
	}
	var out []func() *g.Node
	if n == 1 {
		out = leaves
	} else {
		for k := 1; k < n; k++ {
			var L, R []func() *g.Node
			for _, t := range terms(k, leaves, memo) {
				L = append(L, wrap(t, allMods)...)
			}
			for _, t := range terms(n-k, leaves, memo) {
				R = append(R, wrap(t, allMods)...)
			}
			for _, a := range L {
				for _, b := range R {
					a, b := a, b
					out = append(out, func() *g.Node { return flatten(g.KSeq, a(), b()) })
					out = append(out, func() *g.Node { return flatten(g.KAlt, a(), b()) })
				}
			}
		}
	}
	memo[n] = out
	return out
}

// flatten builds op(a,b) printing-safe: an unwrapped composite operand cannot occur (wrap
// brackets them), so no flattening is needed; kept as a function for clarity.
func flatten(k g.Kind, a, b *g.Node) *g.Node {
	return &g.Node{K: k, Kids: []*g.Node{a, b}}
}

// top adds the top-level group modifiers.
func top(ts []func() *g.Node) []func() *g.Node {
	var out []func() *g.Node
	for _, t := range ts {
		t := t
		out = append(out, t)
		if isComposite(t()) {
			for _, m := range []byte{'?', '*', '+', '!'} {
				m := m
				out = append(out, func() *g.Node { return g.Grp(t(), m) })
			}
		}
	}
	return out
}

// ---------- field assignment

type scheme int

const (
	schemeOwn    scheme = iota // every capture its own field; string, or []*P for @@
	schemeShared               // all token captures into one []string field
	schemeBool                 // every capture its own bool field
	schemeSlices               // every capture its own []string field
	schemeTok                  // every capture its own lexer.Token field
	schemeToks                 // every capture its own []lexer.Token field
)

// assign walks the term in token order, gives captures fields and returns the production.
func assign(name string, body *g.Node, sc scheme) *g.Prod {
	p := &g.Prod{Name: name, Body: body}
	shared := -1
	var rec func(n *g.Node, underRep bool)
	rec = func(n *g.Node, underRep bool) {
		switch n.K {
		case g.KCapture:
			switch sc {
			case schemeShared:
				if shared < 0 || shared != len(p.Fields)-1 {
					// a shared field can only be re-used while it is the last field (tags are laid out in order)
					p.Fields = append(p.Fields, g.Field{Name: fmt.Sprintf("A%d", len(p.Fields)), Kind: g.FStrings})
					shared = len(p.Fields) - 1
				}
				n.Field = shared
			default:
				kind := map[scheme]g.FieldKind{schemeOwn: g.FString, schemeBool: g.FBool, schemeSlices: g.FStrings, schemeTok: g.FTok, schemeToks: g.FToks}[sc]
				p.Fields = append(p.Fields, g.Field{Name: fmt.Sprintf("F%d", len(p.Fields)), Kind: kind})
				n.Field = len(p.Fields) - 1
			}
			return // nested captures are out of domain and never generated
		case g.KSub:
			kind := g.FNode
			if underRep {
				kind = g.FNodes
			}
			if n.Prod.IsUnion() {
				kind = g.FUnion
				if underRep {
					kind = g.FUnions
				}
			}
			p.Fields = append(p.Fields, g.Field{Name: fmt.Sprintf("N%d", len(p.Fields)), Kind: kind, Prod: n.Prod})
			n.Field = len(p.Fields) - 1
			return
		case g.KGroup:
			rec(n.X, underRep || n.Mode == '*' || n.Mode == '+')
			return
		}
		for _, k := range n.Kids {
			rec(k, underRep)
		}
		if n.X != nil {
			rec(n.X, underRep)
		}
	}
	rec(body, false)
	if len(p.Fields) == 0 {
		p.Fields = []g.Field{{Name: "X", Kind: g.FString}}
	}
	return p
}

func hasNegLook(n *g.Node) bool {
	found := false
	var rec func(n *g.Node)
	rec = func(n *g.Node) {
		if n == nil {
			return
		}
		if n.K == g.KNeg || n.K == g.KLook {
			found = true
		}
		for _, k := range n.Kids {
			rec(k)
		}
		rec(n.X)
		if n.K == g.KSub && n.Prod.Body != nil {
			rec(n.Prod.Body)
		}
	}
	rec(n)
	return found
}

// ---------- leaf sets

func lit(s string) func() *g.Node { return func() *g.Node { return g.Lit(s) } }
func ref(t string) func() *g.Node { return func() *g.Node { return g.Ref(t) } }
func capOf(a func() *g.Node) func() *g.Node {
	return func() *g.Node { return capMark(a()) }
}

func coreLeavesFull() []func() *g.Node {
	atoms := []func() *g.Node{lit("a"), capOf(lit("a")), lit("b"), capOf(lit("b")), ref("Ident"), capOf(ref("Ident"))}
	return withMods(atoms, []byte{0, '?', '*'})
}

func coreLeavesReduced() []func() *g.Node {
	return []func() *g.Node{
		lit("a"), capOf(lit("a")), lit("b"), capOf(lit("b")), capOf(ref("Ident")),
		func() *g.Node { return g.Grp(g.Lit("a"), '?') },
		func() *g.Node { return g.Grp(capMark(g.Lit("a")), '?') },
		func() *g.Node { return g.Grp(capMark(g.Lit("b")), '*') },
	}
}

// fixed sub-productions used as @@ leaves (fresh instances per grammar so fields are independent)
func subProds() []func() *g.Prod {
	return []func() *g.Prod{
		func() *g.Prod { return assign("S1", capMark(g.Ref("Ident")), schemeOwn) },                    // completes after 1 token
		func() *g.Prod { return assign("S2", g.Seq(capMark(g.Ref("Ident")), g.Lit("b")), schemeOwn) }, // fails part-way unless b follows
		func() *g.Prod {
			return assign("S3", g.Seq(g.Lit("a"), g.Grp(capMark(g.Ref("Ident")), '*')), schemeShared)
		}, // a then greedy
		func() *g.Prod {
			return assign("S4", g.Seq(capMark(g.Ref("Ident")), g.Grp(g.Seq(g.Lit("b"), capMark(g.Lit("b"))), '?')), schemeOwn)
		}, // inner optional
		func() *g.Prod {
			inner := assign("S5i", g.Seq(capMark(g.Ref("Ident")), g.Lit("b")), schemeOwn)
			return assign("S5", g.Seq(capMark(g.Lit("a")), g.Sub(-1, inner)), schemeOwn) // depth 2, inner fails part-way
		},
		func() *g.Prod {
			inner := assign("S6i", capMark(g.Ref("Ident")), schemeOwn)
			return assign("S6", g.Seq(g.Grp(g.Seq(capMark(g.Ref("Ident")), g.Sub(-1, inner), g.Lit("b")), '?'), capMark(g.Ref("Ident"))), schemeOwn) // the F1 shape one level down
		},
	}
}

// unionLeaves: @@ of a union production (interface-typed field) with two struct members, in both orders.
func unionLeaves(mods []byte) []func() *g.Node {
	sp := subProds()
	mk := func(slot int, a, b int) func() *g.Node {
		return func() *g.Node {
			u := &g.Prod{Name: fmt.Sprintf("V%d", slot), UnionSlot: slot, Members: []*g.Prod{sp[a](), sp[b]()}}
			return g.Sub(-1, u)
		}
	}
	atoms := []func() *g.Node{mk(0, 1, 0), mk(1, 3, 2), mk(2, 0, 1)} // one interface type per atom: (S2|S1): first member fails part-way; (S4|S3); (S1|S2): second unreachable
	return withMods(atoms, mods)
}

func subLeaves(which []int, mods []byte) []func() *g.Node {
	sp := subProds()
	var atoms []func() *g.Node
	for _, i := range which {
		mk := sp[i]
		atoms = append(atoms, func() *g.Node { return g.Sub(-1, mk()) })
	}
	return withMods(atoms, mods)
}

// ---------- families

type Tier int

const (
	Quick Tier = iota
	Thorough
)

func build(family string, ts []func() *g.Node, schemes []scheme, alphabet string, maxLen int) []*Grammar {
	var out []*Grammar
	for _, t := range ts {
		for _, sc := range schemes {
			body := t()
			root := assign("G", body, sc)
			out = append(out, &Grammar{Family: family, Root: root, Alphabet: alphabet, MaxLen: maxLen, HasNegLook: hasNegLook(body)})
		}
	}
	return out
}

// Core: sequence/alternation/modifier terms over literals and token references.
func Core(t Tier) []*Grammar {
	var out []*Grammar
	full := coreLeavesFull()
	memo := map[int][]func() *g.Node{}
	var small []func() *g.Node
	small = append(small, terms(1, full, memo)...)
	small = append(small, terms(2, full, memo)...)
	out = append(out, build("core2", top(small), []scheme{schemeOwn, schemeShared}, "abc", 4)...)
	red := coreLeavesReduced()
	memo3 := map[int][]func() *g.Node{}
	t3 := top(terms(3, red, memo3))
	if t == Quick {
		// quick: the 3-leaf terms that put a choice under a repetition or a repetition inside a choice
		var sel []func() *g.Node
		for _, f := range t3 {
			if choiceRepInteraction(f()) {
				sel = append(sel, f)
			}
		}
		// deterministic thinning to keep the quick tier quick: every 16th
		var thin []func() *g.Node
		for i, f := range sel {
			if i%16 == 0 {
				thin = append(thin, f)
			}
		}
		out = append(out, build("core3", thin, []scheme{schemeShared}, "abc", 4)...)
	} else {
		out = append(out, build("core3", t3, []scheme{schemeShared, schemeOwn}, "abc", 4)...)
	}
	return out
}

func choiceRepInteraction(n *g.Node) bool {
	// an alternative somewhere below a * or + group, or a * / + group below an alternative
	var under func(n *g.Node, inRep, inAlt bool) bool
	under = func(n *g.Node, inRep, inAlt bool) bool {
		if n == nil {
			return false
		}
		if n.K == g.KAlt && inRep {
			return true
		}
		if n.K == g.KGroup && (n.Mode == '*' || n.Mode == '+') && inAlt {
			return true
		}
		r := inRep || (n.K == g.KGroup && (n.Mode == '*' || n.Mode == '+'))
		a := inAlt || n.K == g.KAlt
		for _, k := range n.Kids {
			if under(k, r, a) {
				return true
			}
		}
		return under(n.X, r, a)
	}
	return under(n, false, false)
}

// NegLook: negation and lookahead groups.
func NegLook(t Tier) []*Grammar {
	atoms := []func() *g.Node{lit("a"), lit("b"), ref("Ident")}
	var base []func() *g.Node
	for _, a := range atoms {
		a := a
		base = append(base, a,
			func() *g.Node { return g.Neg(a()) },
			func() *g.Node { return g.Look(a(), '=') },
			func() *g.Node { return g.Look(a(), '!') })
	}
	// composite operands
	for _, pr := range [][2]string{{"a", "b"}, {"a", "a"}, {"b", "a"}} {
		pr := pr
		base = append(base,
			func() *g.Node { return g.Neg(g.Seq(g.Lit(pr[0]), g.Lit(pr[1]))) },
			func() *g.Node { return g.Look(g.Seq(g.Lit(pr[0]), g.Lit(pr[1])), '=') },
			func() *g.Node { return g.Look(g.Seq(g.Lit(pr[0]), g.Lit(pr[1])), '!') },
			func() *g.Node { return g.Neg(g.Alt(g.Lit(pr[0]), g.Lit(pr[1]))) },
			func() *g.Node { return g.Look(g.Alt(g.Lit(pr[0]), g.Lit(pr[1])), '!') })
	}
	var leaves []func() *g.Node
	for _, b := range base {
		b := b
		leaves = append(leaves, b, capOf(b))
	}
	mods := []byte{0}
	if t == Thorough {
		mods = []byte{0, '?', '*'}
	}
	leaves = withMods(leaves, mods)
	memo := map[int][]func() *g.Node{}
	var ts []func() *g.Node
	ts = append(ts, terms(1, leaves, memo)...)
	ts = append(ts, terms(2, leaves, memo)...)
	ml := 4
	if t == Quick {
		ml = 3
	}
	out := build("neglook2", top(ts), []scheme{schemeShared}, "abc", ml)
	if t == Thorough {
		// 3 leaves over a small set
		small := []func() *g.Node{lit("a"), capOf(ref("Ident")),
			func() *g.Node { return capMark(g.Neg(g.Lit("a"))) },
			func() *g.Node { return g.Neg(g.Lit("b")) },
			func() *g.Node { return g.Look(g.Lit("a"), '=') },
			func() *g.Node { return g.Look(g.Seq(g.Lit("a"), g.Lit("b")), '!') },
		}
		out = append(out, build("neglook3", top(terms(3, small, map[int][]func() *g.Node{})), []scheme{schemeShared}, "abc", 4)...)
	}
	return out
}

// SubProd: @@ leaves mixed with token captures; the home of C02.
func SubProd(t Tier) []*Grammar {
	var leaves []func() *g.Node
	leaves = append(leaves, lit("b"), capOf(ref("Ident")), capOf(lit("a")),
		func() *g.Node { return g.Grp(capMark(g.Ref("Ident")), '*') },
		func() *g.Node { return g.Grp(capMark(g.Ref("Ident")), '?') })
	leaves = append(leaves, subLeaves([]int{0, 1, 2, 3, 4, 5}, []byte{0, '?', '*'})...)
	memo := map[int][]func() *g.Node{}
	var ts []func() *g.Node
	ts = append(ts, terms(1, leaves, memo)...)
	ts = append(ts, terms(2, leaves, memo)...)
	ml := 5
	if t == Quick {
		ml = 4
	}
	out := build("sub2", top(ts), []scheme{schemeOwn}, "abc", ml)
	// multi-member unions among the leaves
	ul := []func() *g.Node{lit("b"), capOf(ref("Ident")), func() *g.Node { return g.Grp(capMark(g.Ref("Ident")), '*') }}
	ul = append(ul, unionLeaves([]byte{0, '?', '*'})...)
	mu := map[int][]func() *g.Node{}
	var us []func() *g.Node
	us = append(us, terms(1, ul, mu)...)
	us = append(us, terms(2, ul, mu)...)
	out = append(out, build("union2", top(us), []scheme{schemeOwn}, "abc", ml)...)
	small := []func() *g.Node{lit("b"), capOf(ref("Ident"))}
	which := []int{0, 1}
	if t == Thorough {
		which = []int{0, 1, 3, 4, 5}
	}
	small = append(small, subLeaves(which, []byte{0})...)
	t3 := top(terms(3, small, map[int][]func() *g.Node{}))
	if t == Quick {
		var thin []func() *g.Node
		for i, f := range t3 {
			if i%4 == 0 {
				thin = append(thin, f)
			}
		}
		t3 = thin
	}
	out = append(out, build("sub3", t3, []scheme{schemeOwn}, "abc", 4)...)
	if t == Thorough {
		out = append(out, build("sub3s", t3, []scheme{schemeShared}, "abc", 4)...)
	}
	return out
}

// Kinds: the field kinds of C01's statement (bool, []string, Token, []Token) over small terms,
// including multi-token and nullable captures.
func Kinds(t Tier) []*Grammar {
	atoms := []func() *g.Node{
		capOf(lit("a")), capOf(ref("Ident")), lit("b"),
		func() *g.Node { return capMark(g.Seq(g.Lit("a"), g.Lit("b"))) },
		func() *g.Node { return capMark(g.Seq(g.Ref("Ident"), g.Grp(g.Lit("b"), '?'))) },
		func() *g.Node { return capMark(g.Grp(g.Lit("a"), '?')) },
		func() *g.Node { return capMark(g.Grp(g.Ref("Ident"), '*')) },
		func() *g.Node { return capMark(g.Alt(g.Lit("a"), g.Seq(g.Lit("b"), g.Lit("b")))) },
	}
	leaves := withMods(atoms, []byte{0, '?', '*'})
	memo := map[int][]func() *g.Node{}
	var ts []func() *g.Node
	ts = append(ts, terms(1, leaves, memo)...)
	ts = append(ts, terms(2, leaves, memo)...)
	ml := 4
	if t == Quick {
		ml = 3
	}
	return build("kinds2", top(ts), []scheme{schemeBool, schemeSlices, schemeTok, schemeToks, schemeOwn}, "abc", ml)
}

// ---------- elision / positions families (C10, C11)

var ElideAll = []string{"Space", "Comment", "NL"}

func setPositions(p *g.Prod, style int) {
	seen := map[*g.Prod]bool{}
	var rec func(q *g.Prod)
	rec = func(q *g.Prod) {
		if seen[q] {
			return
		}
		seen[q] = true
		for _, m := range q.Members {
			rec(m)
		}
		if q.Body != nil && q.Static == nil {
			q.HasPos, q.HasEndPos, q.HasTokens = true, true, true
			q.PosStyle = style
			if style == 4 {
				// EndPos and Tokens without a Pos field
				q.HasPos, q.PosStyle = false, 0
			}
			for _, f := range q.Fields {
				if f.Prod != nil {
					rec(f.Prod)
				}
			}
		}
	}
	rec(p)
}

func thin(ts []func() *g.Node, every int) []func() *g.Node {
	if every <= 1 {
		return ts
	}
	var out []func() *g.Node
	for i, f := range ts {
		if i%every == 0 {
			out = append(out, f)
		}
	}
	return out
}

// Elision: grammars that never name an elided type, parsed over every re-spacing of every token string.
func Elision(t Tier) []*Grammar {
	full := coreLeavesFull()
	memo := map[int][]func() *g.Node{}
	var ts []func() *g.Node
	ts = append(ts, terms(1, full, memo)...)
	ts = append(ts, terms(2, full, memo)...)
	ts = top(ts)
	// negation / lookahead leaves
	atoms := []func() *g.Node{lit("a"), ref("Ident"), capOf(ref("Ident")),
		func() *g.Node { return capMark(g.Neg(g.Lit("a"))) },
		func() *g.Node { return g.Neg(g.Lit("b")) },
		func() *g.Node { return g.Look(g.Lit("a"), '=') },
		func() *g.Node { return g.Look(g.Lit("a"), '!') },
		func() *g.Node { return g.Look(g.Seq(g.Lit("a"), g.Lit("b")), '!') },
		func() *g.Node { return g.Grp(capMark(g.Neg(g.Lit("b"))), '*') },
	}
	memo2 := map[int][]func() *g.Node{}
	var ns []func() *g.Node
	ns = append(ns, terms(1, atoms, memo2)...)
	ns = append(ns, terms(2, atoms, memo2)...)
	ns = top(ns)
	// sub-productions and token fields
	subl := []func() *g.Node{lit("b"), capOf(ref("Ident"))}
	subl = append(subl, subLeaves([]int{0, 1, 3}, []byte{0, '*'})...)
	memo3 := map[int][]func() *g.Node{}
	var ss []func() *g.Node
	ss = append(ss, terms(1, subl, memo3)...)
	ss = append(ss, terms(2, subl, memo3)...)
	ss = top(ss)
	every := 1
	fills := []string{"", " ", " #"}
	if t == Quick {
		every = 6
		fills = []string{"", " #"}
	}
	mk := func(fam string, ts []func() *g.Node, scs []scheme) []*Grammar {
		grs := build(fam, thin(ts, every), scs, "abc", 3)
		for _, gr := range grs {
			gr.Elide = ElideAll
			gr.Spaced = true
			gr.Fills = fills
			gr.SpacedLen = 3
			gr.Lookaheads = []int{0, 1, 2, -1}
		}
		return grs
	}
	var out []*Grammar
	out = append(out, mk("elide-core2", ts, []scheme{schemeShared})...)
	out = append(out, mk("elide-neglook2", ns, []scheme{schemeShared})...)
	out = append(out, mk("elide-sub2", ss, []scheme{schemeOwn})...)
	out = append(out, mk("elide-tok2", thin(ts, 3), []scheme{schemeTok, schemeToks})...)
	// case-insensitive keywords with elided tokens in front of them
	ciAtoms := []func() *g.Node{
		lit("a"), lit("A"), capOf(lit("a")), func() *g.Node { return capMark(g.LitT("A", "Ident")) },
		capOf(ref("Ident")), lit("b"),
		func() *g.Node { return g.Grp(capMark(g.Lit("a")), '*') },
		func() *g.Node { return capMark(g.Neg(g.Lit("a"))) },
	}
	memo4 := map[int][]func() *g.Node{}
	var cs []func() *g.Node
	cs = append(cs, terms(1, ciAtoms, memo4)...)
	cs = append(cs, terms(2, ciAtoms, memo4)...)
	ci := mk("elide-ci2", top(cs), []scheme{schemeShared})
	for _, gr := range ci {
		gr.Alphabet = "aAb"
		gr.CI = []string{"Ident"}
	}
	out = append(out, ci...)
	return out
}

// ElidedExplicit: grammars that name the elided type Comment explicitly (decided by the model only).
func ElidedExplicit(t Tier) []*Grammar {
	atoms := []func() *g.Node{lit("a"), capOf(ref("Ident")), ref("Comment"), capOf(ref("Comment")),
		func() *g.Node { return g.Grp(capMark(g.Ref("Comment")), '?') },
		func() *g.Node { return g.Grp(capMark(g.Ref("Comment")), '*') },
		func() *g.Node { return g.Grp(capMark(g.Ref("Ident")), '*') },
		func() *g.Node { return capMark(g.Neg(g.Lit("a"))) },
		func() *g.Node { return capMark(g.LitT("#", "Comment")) },
		func() *g.Node { return capMark(g.Alt(g.Seq(g.Ref("Comment"), g.Lit("a")), g.Ref("Ident"))) },
		func() *g.Node {
			return capMark(g.Alt(g.Seq(g.Ref("Space"), g.Lit("b")), g.Seq(g.Ref("Ident"), g.Grp(g.Ref("Ident"), '?'))))
		},
	}
	memo := map[int][]func() *g.Node{}
	var ts []func() *g.Node
	ts = append(ts, terms(1, atoms, memo)...)
	ts = append(ts, terms(2, atoms, memo)...)
	if t == Thorough {
		small := []func() *g.Node{capOf(ref("Ident")), capOf(ref("Comment")), func() *g.Node { return capMark(g.Neg(g.Lit("a"))) }, lit("a")}
		ts = append(ts, terms(3, small, map[int][]func() *g.Node{})...)
	}
	grs := build("elide-explicit", top(ts), []scheme{schemeShared, schemeToks}, "abc", 3)
	for _, gr := range grs {
		gr.Elide = ElideAll
		gr.Spaced = true
		gr.Fills = []string{"", " ", "#", " #", "# "}
		if t == Quick {
			gr.Fills = []string{"", "#", " #"}
		}
		gr.SpacedLen = 2
		gr.NamesElided = true
		gr.Lookaheads = []int{0, 1, 2, -1}
	}
	return grs
}

// Positions: sub-production grammars whose every node carries Pos / EndPos / Tokens.
func Positions(t Tier) []*Grammar {
	leaves := []func() *g.Node{lit("b"), capOf(ref("Ident")),
		func() *g.Node { return g.Grp(capMark(g.Ref("Ident")), '*') },
		func() *g.Node { return capMark(g.Neg(g.Lit("b"))) },
	}
	leaves = append(leaves, subLeaves([]int{0, 1, 2, 3, 4, 5}, []byte{0, '?', '*'})...)
	// a user-implemented (Parseable) production, and a struct production that starts with one
	parseable := func() *g.Prod {
		return &g.Prod{Name: "PIdent", Static: g.PIdent{}, Body: g.Cap(0, g.Ref("Ident")), Fields: []g.Field{{Name: "F0", Kind: g.FString}}}
	}
	leaves = append(leaves,
		func() *g.Node { return g.Sub(-1, parseable()) },
		func() *g.Node { return g.Grp(g.Sub(-1, parseable()), '*') },
		func() *g.Node {
			return g.Sub(-1, assign("SP", g.Seq(g.Sub(-1, parseable()), g.Grp(g.Seq(g.Lit("b"), capMark(g.Ref("Ident"))), '?')), schemeOwn))
		})
	memo := map[int][]func() *g.Node{}
	var ts []func() *g.Node
	ts = append(ts, terms(1, leaves, memo)...)
	ts = append(ts, terms(2, leaves, memo)...)
	ts = top(ts)
	every := 1
	if t == Quick {
		every = 6
	}
	var out []*Grammar
	for style := 0; style < 6; style++ { // 4: EndPos / Tokens without Pos; 5: Pos and EndPos of different (convertible) types
		sel := thin(ts, every)
		if style > 0 {
			sel = thin(ts, every*8)
		}
		grs := build(fmt.Sprintf("pos2-style%d", style), sel, []scheme{schemeOwn}, "abc", 3)
		for _, gr := range grs {
			setPositions(gr.Root, style)
			gr.Elide = ElideAll
			gr.Spaced = true
			gr.Fills = []string{"", " ", "\n#"}
			if t == Quick {
				gr.Fills = []string{"", " \n#"}
			}
			gr.SpacedLen = 3
			gr.Positions = true
			gr.Lookaheads = []int{1, 2, -1}
			gr.Mapper = style == 0
		}
		out = append(out, grs...)
	}
	// the same terms with every capture going to a lexer.Token / []lexer.Token field (a repeated capture
	// accumulates token ranges in one field) next to the node's own Pos / EndPos / Tokens
	{
		grs := build("pos2-tokfields", thin(ts, every*3), []scheme{schemeToks, schemeTok}, "abc", 3)
		for _, gr := range grs {
			setPositions(gr.Root, 0)
			gr.Elide = ElideAll
			gr.Spaced = true
			gr.Fills = []string{"", " \n#"}
			gr.SpacedLen = 3
			gr.Positions = true
			gr.Lookaheads = []int{1, -1}
		}
		out = append(out, grs...)
	}
	// grammars that name the elided Comment type explicitly (Pos unspecified, Tokens / EndPos still are)
	{
		lv := []func() *g.Node{capOf(ref("Ident")), lit("b"),
			func() *g.Node { return g.Grp(capMark(g.Ref("Comment")), '?') },
			func() *g.Node { return g.Grp(capMark(g.Ref("Comment")), '*') },
			capOf(ref("Comment")),
		}
		lv = append(lv, subLeaves([]int{0, 1}, []byte{0, '*'})...)
		mm := map[int][]func() *g.Node{}
		var es []func() *g.Node
		es = append(es, terms(2, lv, mm)...)
		if t == Thorough {
			es = append(es, terms(3, []func() *g.Node{capOf(ref("Ident")), func() *g.Node { return g.Grp(capMark(g.Ref("Comment")), '?') }, subLeaves([]int{0}, []byte{0})[0]}, map[int][]func() *g.Node{})...)
		}
		grs := build("pos-explicit", thin(top(es), every), []scheme{schemeOwn}, "abc", 3)
		for _, gr := range grs {
			setPositions(gr.Root, 0)
			gr.Elide = ElideAll
			gr.Spaced = true
			gr.Fills = []string{"", "#", " #"}
			gr.SpacedLen = 2
			gr.Positions = true
			gr.NamesElided = true
			gr.Lookaheads = []int{1, -1}
		}
		out = append(out, grs...)
	}
	out = append(out, positionsRecursive(t)...)
	if t == Thorough {
		small := []func() *g.Node{lit("b"), capOf(ref("Ident"))}
		small = append(small, subLeaves([]int{0, 1, 5}, []byte{0})...)
		grs := build("pos3", top(terms(3, small, map[int][]func() *g.Node{})), []scheme{schemeOwn}, "abc", 3)
		for _, gr := range grs {
			setPositions(gr.Root, 0)
			gr.Elide = ElideAll
			gr.Spaced = true
			gr.Fills = []string{"", " \n"}
			gr.SpacedLen = 3
			gr.Positions = true
			gr.Lookaheads = []int{1, -1}
		}
		out = append(out, grs...)
	}
	return out
}

// NegLookDeep: negation / lookahead groups whose operand contains choice points with captures that
// progress several tokens before failing (captures inside must never surface).
func NegLookDeep(t Tier) []*Grammar {
	tiny := []func() *g.Node{capOf(ref("Ident")), lit("a"), lit("b")}
	memo := map[int][]func() *g.Node{}
	var ts []func() *g.Node
	ts = append(ts, terms(2, tiny, memo)...)
	ts = append(ts, terms(3, tiny, memo)...)
	var ops []func() *g.Node
	for _, tt := range ts {
		tt := tt
		ops = append(ops,
			func() *g.Node { return g.Grp(tt(), '?') },
			func() *g.Node { return g.Grp(tt(), '*') },
			func() *g.Node { return g.Seq(g.Grp(tt(), '?'), g.Lit("a")) },
			func() *g.Node { return g.Seq(g.Grp(tt(), '?'), g.Lit("c")) },
			func() *g.Node { return g.Alt(g.Grp(tt(), 0), g.Lit("a")) },
		)
	}
	var gs []func() *g.Node
	for _, o := range ops {
		o := o
		cont := func() *g.Node { return g.Grp(capMark(g.Ref("Ident")), '*') }
		gs = append(gs,
			func() *g.Node { return g.Seq(g.Neg(g.Grp(o(), 0)), cont()) },
			func() *g.Node { return g.Seq(g.Look(o(), '='), cont()) },
			func() *g.Node { return g.Seq(g.Look(o(), '!'), cont()) },
		)
	}
	every := 1
	if t == Quick {
		every = 5
	}
	return build("neglook-deep", thin(gs, every), []scheme{schemeOwn}, "abc", 4)
}

// CaseInsensitive: literals in both cases, typed and untyped, with and without the option.
func CaseInsensitive(t Tier) []*Grammar {
	atoms := []func() *g.Node{
		lit("a"), lit("A"), capOf(lit("a")), capOf(lit("A")),
		func() *g.Node { return g.LitT("a", "Ident") }, func() *g.Node { return capMark(g.LitT("A", "Ident")) },
		capOf(ref("Ident")), lit("b"),
		func() *g.Node { return g.Grp(capMark(g.Lit("a")), '*') },
		func() *g.Node { return g.Grp(g.Lit("A"), '?') },
		func() *g.Node { return capMark(g.Neg(g.Lit("a"))) },
	}
	memo := map[int][]func() *g.Node{}
	var ts []func() *g.Node
	ts = append(ts, terms(1, atoms, memo)...)
	ts = append(ts, terms(2, atoms, memo)...)
	ml := 4
	if t == Quick {
		ml = 3
	}
	var out []*Grammar
	for _, ci := range [][]string{nil, {"Ident"}} {
		grs := build(fmt.Sprintf("ci2-%d", len(ci)), top(ts), []scheme{schemeShared}, "aAb", ml)
		for _, gr := range grs {
			gr.CI = ci
		}
		out = append(out, grs...)
	}
	// case FOLDING is not lower-casing: U+017F (long s) folds to s / S but is its own lower case
	// (round 10, C01-r10-2: literals compared with strings.ToLower instead of strings.EqualFold)
	foldAtoms := []func() *g.Node{
		lit("s"), capOf(lit("S")), capOf(lit("\u017f")),
		func() *g.Node { return capMark(g.LitT("s", "Ident")) },
		capOf(ref("Ident")),
	}
	memoF := map[int][]func() *g.Node{}
	var fs []func() *g.Node
	fs = append(fs, terms(1, foldAtoms, memoF)...)
	fs = append(fs, terms(2, foldAtoms, memoF)...)
	for _, ci := range [][]string{nil, {"Ident"}} {
		grs := build(fmt.Sprintf("ci-fold-%d", len(ci)), top(fs), []scheme{schemeShared}, "sS\u017f", 3)
		for _, gr := range grs {
			gr.CI = ci
		}
		out = append(out, grs...)
	}
	return out
}

// CaptureComposite: one capture around a sequence that contains a repetition / option of a multi-token body.
// The last iteration can match its first tokens and then be given up: nothing of it belongs to the capture.
func CaptureComposite(t Tier) []*Grammar {
	atoms := []func() *g.Node{
		lit("b"), lit("c"), capOf(ref("Ident")),
		func() *g.Node { return capMark(g.Seq(g.Lit("a"), g.Grp(g.Seq(g.Lit("b"), g.Lit("a")), '*'))) },
		func() *g.Node { return capMark(g.Seq(g.Ref("Ident"), g.Grp(g.Seq(g.Lit("b"), g.Ref("Ident")), '*'))) },
		func() *g.Node { return capMark(g.Grp(g.Seq(g.Lit("a"), g.Lit("b")), '+')) },
		func() *g.Node { return capMark(g.Seq(g.Lit("a"), g.Grp(g.Seq(g.Lit("b"), g.Lit("c")), '?'))) },
		func() *g.Node { return g.Grp(capMark(g.Seq(g.Lit("b"), g.Lit("c"))), '?') },
		func() *g.Node { return capMark(g.Seq(g.Lit("a"), g.Grp(g.Alt(g.Seq(g.Lit("b"), g.Lit("b")), g.Lit("c")), '*'))) },
	}
	memo := map[int][]func() *g.Node{}
	var ts []func() *g.Node
	ts = append(ts, terms(1, atoms, memo)...)
	ts = append(ts, terms(2, atoms, memo)...)
	ml := 6
	if t == Quick {
		ml = 5
	}
	out := build("capcomp2", top(ts), []scheme{schemeOwn, schemeSlices, schemeToks}, "abc", ml)
	// a captured repetition inside a loop: the same repetition node runs several times, once more in an
	// iteration that is given up, and again after the loop
	loopAtoms := []func() *g.Node{
		lit(";"), capOf(ref("Ident")),
		func() *g.Node { return g.Grp(g.Seq(capMark(g.Grp(g.Ref("Ident"), '+')), g.Lit(";")), '*') },
		func() *g.Node { return capMark(g.Grp(g.Ref("Ident"), '*')) },
		func() *g.Node { return g.Grp(g.Seq(capMark(g.Grp(g.Seq(g.Lit("a"), g.Ref("Ident")), '+')), g.Lit(";")), '+') },
	}
	memo2 := map[int][]func() *g.Node{}
	var ls []func() *g.Node
	ls = append(ls, terms(1, loopAtoms, memo2)...)
	ls = append(ls, terms(2, loopAtoms, memo2)...)
	out = append(out, build("capcomp-loop", top(ls), []scheme{schemeOwn, schemeSlices}, "ab;", ml+1)...)
	return out
}

// RecursiveCaptures: a production that contains itself (through a union), with captures of the ENCLOSING
// instance still pending while the nested instance completes, inside an alternative that is given up later.
func RecursiveCaptures(t Tier) []*Grammar {
	var out []*Grammar
	mk := func(name string, body func(u *g.Prod) *g.Node) {
		u := &g.Prod{Name: "U0", UnionSlot: 0, Members: []*g.Prod{nil}}
		s := assign("R", body(u), schemeOwn)
		u.Members = []*g.Prod{s}
		ml := 6
		if t == Quick {
			ml = 5
		}
		out = append(out, &Grammar{Family: "rec-capture-" + name, Root: s, Alphabet: "ab;", MaxLen: ml})
	}
	id := func() *g.Node { return capMark(g.Ref("Ident")) }
	mk("alt-then-bang", func(u *g.Prod) *g.Node {
		// ( @Ident "a" @@ "b" ";" ) | ( @Ident ( "a" @@ "b" )? )
		return g.Alt(g.Seq(id(), g.Lit("a"), g.Sub(-1, u), g.Lit("b"), g.Lit(";")), g.Seq(id(), g.Grp(g.Seq(g.Lit("a"), g.Sub(-1, u), g.Lit("b")), '?')))
	})
	mk("optional-tail", func(u *g.Prod) *g.Node {
		// @Ident ( "a" @@ ";" )? @Ident?
		return g.Seq(id(), g.Grp(g.Seq(g.Lit("a"), g.Sub(-1, u), g.Lit(";")), '?'), g.Grp(id(), '?'))
	})
	mk("repeat", func(u *g.Prod) *g.Node {
		// ( @Ident "a" @@ ";" )* @Ident
		return g.Seq(g.Grp(g.Seq(id(), g.Lit("a"), g.Sub(-1, u), g.Lit(";")), '*'), id())
	})
	// the same shape as "alt-then-bang" with DIRECT recursion (a static Go type, fields *RecNode)
	{
		rec := &g.Prod{Name: "RecNode", Static: g.RecNode{}}
		rec.Fields = []g.Field{{Name: "F0", Kind: g.FString}, {Name: "N1", Kind: g.FNode, Prod: rec}, {Name: "F2", Kind: g.FString}, {Name: "N3", Kind: g.FNode, Prod: rec}}
		rec.Body = g.Alt(
			g.Seq(g.Cap(0, g.Ref("Ident")), g.Lit("a"), g.Sub(1, rec), g.Lit("b"), g.Lit(";")),
			g.Seq(g.Cap(2, g.Ref("Ident")), g.Grp(g.Seq(g.Lit("a"), g.Sub(3, rec), g.Lit("b")), '?')))
		ml := 8
		if t == Quick {
			ml = 7
		}
		out = append(out, &Grammar{Family: "rec-capture-direct", Root: rec, Alphabet: "ab;", MaxLen: ml})
	}
	mk("lookahead", func(u *g.Prod) *g.Node {
		// (?! @Ident "a" @@ ";" ) @Ident ( "a" @@ )?
		return g.Seq(g.Look(g.Seq(id(), g.Lit("a"), g.Sub(-1, u), g.Lit(";")), '!'), id(), g.Grp(g.Seq(g.Lit("a"), g.Sub(-1, u)), '?'))
	})
	return out
}

// ParseableFam: a user-implemented production (gmodel.PNotB) at choice points: attempts it abandons with
// NextMatch after writing to its receiver, followed by attempts that succeed.
func ParseableFam(t Tier) []*Grammar {
	pn := func() *g.Prod {
		return &g.Prod{Name: "PNotB", Static: g.PNotB{}, Body: g.Seq(g.Look(g.Lit("b"), '!'), g.Cap(0, g.Ref("Ident"))), Fields: []g.Field{{Name: "F0", Kind: g.FString}}}
	}
	sub := func() *g.Node { return g.Sub(-1, pn()) }
	leaves := []func() *g.Node{lit("b"), lit("a"), capOf(ref("Ident")), sub,
		func() *g.Node { return g.Grp(sub(), '*') },
		func() *g.Node { return g.Grp(sub(), '?') },
		func() *g.Node { return g.Grp(g.Alt(sub(), capMark(g.Lit("b"))), '*') },
		func() *g.Node { return g.Grp(g.Seq(g.Grp(g.Lit("b"), '?'), sub()), '+') },
		func() *g.Node { return g.Alt(g.Seq(sub(), g.Lit("c")), g.Seq(g.Lit("b"), sub())) },
	}
	memo := map[int][]func() *g.Node{}
	var ts []func() *g.Node
	ts = append(ts, terms(1, leaves, memo)...)
	ts = append(ts, terms(2, leaves, memo)...)
	ml := 5
	if t == Quick {
		ml = 4
	}
	return build("parseable2", top(ts), []scheme{schemeOwn}, "abc", ml)
}

// ---------- exported helpers for other engines

type LeafFn = func() *g.Node

func Terms(n int, leaves []LeafFn) []LeafFn       { return terms(n, leaves, map[int][]func() *g.Node{}) }
func Top(ts []LeafFn) []LeafFn                    { return top(ts) }
func AssignOwn(name string, body *g.Node) *g.Prod { return assign(name, body, schemeOwn) }
func CapMark(x *g.Node) *g.Node                   { return capMark(x) }

// positionsRecursive: recursive productions (through union types, so reflect.StructOf can build
// them) whose every node carries Pos / EndPos / Tokens: nested occurrences of one and the same type.
func positionsRecursive(t Tier) []*Grammar {
	var out []*Grammar
	mk := func(name string, body func(u *g.Prod) *g.Node) {
		u := &g.Prod{Name: "U0", UnionSlot: 0, Members: []*g.Prod{nil}} // placeholder so that fields get the union kind
		s := assign("R", body(u), schemeOwn)
		u.Members = []*g.Prod{s}
		// the root is the struct itself (wrapped by the harness); recursion goes through U0
		gr := &Grammar{Family: "pos-rec-" + name, Root: s, Alphabet: "ab;", MaxLen: 4, Elide: ElideAll, Spaced: true, Fills: []string{"", " ", "\n#"}, SpacedLen: 3, Positions: true, Lookaheads: []int{1, 2, -1}}
		if t == Quick {
			gr.Fills = []string{"", " #"}
		}
		setPositions(s, 0)
		out = append(out, gr)
	}
	// R = "a" R? "b"-style bracketed / right recursion in several shapes
	mk("bracket", func(u *g.Prod) *g.Node {
		return g.Alt(g.Seq(g.Lit("a"), g.Sub(-1, u), g.Lit("b")), capMark(g.Lit(";")))
	})
	mk("right", func(u *g.Prod) *g.Node {
		return g.Seq(capMark(g.Ref("Ident")), g.Grp(g.Sub(-1, u), '?'))
	})
	mk("list", func(u *g.Prod) *g.Node {
		return g.Seq(g.Lit("a"), g.Grp(g.Sub(-1, u), '*'), g.Lit("b"))
	})
	mk("backtrack", func(u *g.Prod) *g.Node {
		return g.Alt(g.Seq(g.Lit("a"), g.Sub(-1, u), g.Lit(";")), g.Seq(g.Lit("a"), g.Sub(-1, u), g.Lit("b")), capMark(g.Lit("b")))
	})
	mk("two", func(u *g.Prod) *g.Node {
		return g.Seq(capMark(g.Lit("a")), g.Grp(g.Seq(g.Sub(-1, u), g.Lit(";"), g.Sub(-1, u)), '?'))
	})
	return out
}

// EOFRef: grammars that name the EOF token explicitly, over re-spaced inputs (elided tokens before EOF).
func EOFRef(t Tier) []*Grammar {
	leaves := []func() *g.Node{
		capOf(ref("Ident")), lit(";"), ref("EOF"),
		func() *g.Node { return g.Grp(g.Alt(g.Lit(";"), g.Ref("EOF")), 0) },
		func() *g.Node { return g.Grp(capMark(g.Ref("Ident")), '*') },
		func() *g.Node {
			return g.Grp(g.Seq(capMark(g.Ref("Ident")), g.Grp(g.Alt(g.Lit(";"), g.Ref("EOF")), 0)), '*')
		},
		func() *g.Node { return g.Look(g.Ref("EOF"), '!') },
		func() *g.Node { return g.Look(g.Ref("EOF"), '=') },
	}
	memo := map[int][]func() *g.Node{}
	var ts []func() *g.Node
	ts = append(ts, terms(1, leaves, memo)...)
	ts = append(ts, terms(2, leaves, memo)...)
	if t == Thorough {
		ts = append(ts, terms(3, leaves[:5], map[int][]func() *g.Node{})...)
	}
	every := 1
	if t == Quick {
		every = 2
	}
	grs := build("eofref", thin(top(ts), every), []scheme{schemeShared}, "ab;", 3)
	for _, gr := range grs {
		gr.Elide = ElideAll
		gr.Spaced = true
		gr.Fills = []string{"", " ", " #"}
		if t == Quick {
			gr.Fills = []string{"", " #"}
		}
		gr.SpacedLen = 3
		gr.NamesElided = true // the metamorphic re-spacing oracle is not applied; the model decides
		gr.Lookaheads = []int{0, 1, 2, -1}
	}
	return grs
}
