//go:build verif

// This file is NOT part of the repository: it is overlaid into /repo/cmd/participle at check time
// (go build -overlay) so that the real generateLexer can be driven for many definitions in one
// process. Nothing of the generator is re-implemented here.
package main

import (
	"bytes"
	"encoding/json"
	"fmt"
	"os"
	"path/filepath"

	"github.com/alecthomas/participle/v2/lexer"
)

func init() {
	path := os.Getenv("VERIF_GEN_BATCH")
	if path == "" {
		return
	}
	type item struct {
		ID    string          `json:"id"`
		Name  string          `json:"name"`
		Pkg   string          `json:"pkg"`
		Out   string          `json:"out"`
		Rules json.RawMessage `json:"rules"`
	}
	type result struct {
		OK    bool   `json:"ok"`
		Error string `json:"error,omitempty"`
		Panic string `json:"panic,omitempty"`
	}
	data, err := os.ReadFile(path)
	if err != nil {
		fmt.Fprintln(os.Stderr, err)
		os.Exit(2)
	}
	var items []item
	if err := json.Unmarshal(data, &items); err != nil {
		fmt.Fprintln(os.Stderr, err)
		os.Exit(2)
	}
	results := map[string]result{}
	for _, it := range items {
		func() {
			defer func() {
				if r := recover(); r != nil {
					results[it.ID] = result{Panic: fmt.Sprint(r)}
				}
			}()
			rules := lexer.Rules{}
			if err := json.Unmarshal(it.Rules, &rules); err != nil {
				results[it.ID] = result{Error: "unmarshal: " + err.Error()}
				return
			}
			def, err := lexer.New(rules)
			if err != nil {
				results[it.ID] = result{Error: "lexer.New: " + err.Error()}
				return
			}
			var buf bytes.Buffer
			if err := generateLexer(&buf, it.Pkg, def, it.Name, ""); err != nil {
				results[it.ID] = result{Error: "generateLexer: " + err.Error()}
				return
			}
			if err := os.MkdirAll(filepath.Dir(it.Out), 0o755); err != nil {
				results[it.ID] = result{Error: err.Error()}
				return
			}
			if err := os.WriteFile(it.Out, buf.Bytes(), 0o644); err != nil {
				results[it.ID] = result{Error: err.Error()}
				return
			}
			results[it.ID] = result{OK: true}
		}()
	}
	out, _ := json.Marshal(results)
	if err := os.WriteFile(os.Getenv("VERIF_GEN_RESULTS"), out, 0o644); err != nil {
		fmt.Fprintln(os.Stderr, err)
		os.Exit(2)
	}
	os.Exit(0)
}
