// peekx: explicit-state model checking of lexer.PeekingLexer (property C12).
//
// For every token stream up to a length bound and every elision set, breadth-first search over the
// REAL PeekingLexer value (it is a copyable struct, so successors are struct copies of the real
// object) under every public operation, to a fixpoint of the reachable state set. The reference
// model is a single number r (raw cursor) over the same stream; every observation of every
// operation in every reachable state is compared with the model.
package main

import (
	"fmt"
	"reflect"
	"strconv"
	"strings"
	"time"
	"unsafe"

	"github.com/alecthomas/participle/v2/lexer"

	"verif/mc/internal/hx"
)

const (
	tX lexer.TokenType = -2 - iota
	tY
	tE
	tF
)

var typeNames = map[byte]lexer.TokenType{'X': tX, 'Y': tY, 'e': tE, 'f': tF, '$': lexer.EOF}

type sliceLexer struct {
	toks []lexer.Token
	i    int
}

func (s *sliceLexer) Next() (lexer.Token, error) {
	t := s.toks[s.i]
	if s.i < len(s.toks)-1 {
		s.i++
	}
	return t, nil
}

// numberings of the four token types: token types are arbitrary integers, so a set of them must not
// confuse types that are congruent modulo a word size ("B:", "C:" prefixes of the elision string)
var numberings = map[string]map[byte]lexer.TokenType{
	"":   typeNames,
	"B:": {'X': tE - 64, 'Y': tF - 256, 'e': tE, 'f': tF, '$': lexer.EOF},
	"C:": {'X': tE - 32, 'Y': tE - 128, 'e': tE, 'f': tF, '$': lexer.EOF},
}

func splitElide(el string) (map[byte]lexer.TokenType, string) {
	if len(el) >= 2 && el[1] == ':' {
		return numberings[el[:2]], el[2:]
	}
	return typeNames, el
}

func mkTokens(stream string, typeNames map[byte]lexer.TokenType) []lexer.Token {
	var out []lexer.Token
	for i := 0; i < len(stream); i++ {
		out = append(out, lexer.Token{Type: typeNames[stream[i]], Value: fmt.Sprintf("%c%d", stream[i], i), Pos: lexer.Position{Offset: i, Line: 1, Column: i + 1}})
	}
	out = append(out, lexer.EOFToken(lexer.Position{Offset: len(stream), Line: 1, Column: len(stream) + 1}))
	return out
}

type pred struct {
	name string
	f    func(lexer.Token) bool
}

var preds = []pred{
	{"never", func(lexer.Token) bool { return false }},
	{"always", func(lexer.Token) bool { return true }},
	{"isE", func(t lexer.Token) bool { return t.Type == tE }},
	{"isF", func(t lexer.Token) bool { return t.Type == tF }},
	{"isX", func(t lexer.Token) bool { return t.Type == tX }},
	{"isY", func(t lexer.Token) bool { return t.Type == tY }},
	// predicates may look at anything, not only the type: tokens at odd / at one particular position
	{"oddPosition", func(t lexer.Token) bool { return t.Pos.Offset%2 == 1 }},
	{"isThird", func(t lexer.Token) bool { return t.Pos.Offset == 2 && !t.EOF() }},
}

// model over the token slice T (T[n] = EOF) and elision set
type model struct {
	T     []lexer.Token
	elide map[lexer.TokenType]bool
	n     int
}

func (m *model) elided(i int) bool { return i < m.n && m.elide[m.T[i].Type] }
func (m *model) ne(r int) int {
	for r < m.n && m.elided(r) {
		r++
	}
	return r
}
func (m *model) cur(r int) int {
	c := 0
	for i := 0; i < r && i < m.n; i++ {
		if !m.elided(i) {
			c++
		}
	}
	return c
}
func (m *model) peekAny(r int, p func(lexer.Token) bool) int {
	for i := r; ; i++ {
		if i == m.n || p(m.T[i]) || !m.elided(i) {
			return i
		}
	}
}

// impl state + model state
type state struct {
	pl    lexer.PeekingLexer
	slots [2]lexer.Checkpoint
	has   [2]bool
	r     int    // model raw cursor
	sr    [2]int // model slots
	path  string
}

// idxOf returns the index of the token pointer inside the stream (or -1).
func idxOf(all []lexer.Token, t *lexer.Token) int {
	for i := range all {
		if &all[i] == t {
			return i
		}
	}
	return -1
}

type obs struct{ raw, peek, cursor int }

func observe(pl *lexer.PeekingLexer, all []lexer.Token) obs {
	return obs{int(pl.RawCursor()), idxOf(all, pl.Peek()), pl.Cursor()}
}

// fingerprint renders EVERY field of the real object (also unexported ones, read through reflection),
// so that two states are only merged when the implementation itself cannot tell them apart: hidden
// state that is not observable through Peek/Cursor (e.g. a sticky flag) must keep states distinct.
// Pointers into the token slice are rendered as indexes; the immutable token slice and the elision
// map are rendered by length only.
func fingerprint(b *strings.Builder, v reflect.Value, all []lexer.Token, depth int) {
	if depth > 6 {
		b.WriteString("...")
		return
	}
	switch v.Kind() {
	case reflect.Struct:
		b.WriteString("{")
		for i := 0; i < v.NumField(); i++ {
			b.WriteString(v.Type().Field(i).Name + ":")
			fingerprint(b, v.Field(i), all, depth+1)
			b.WriteString(" ")
		}
		b.WriteString("}")
	case reflect.Ptr, reflect.UnsafePointer:
		if v.IsNil() {
			b.WriteString("nil")
			return
		}
		addr := v.Pointer()
		if len(all) > 0 {
			base := uintptr(unsafe.Pointer(&all[0]))
			sz := unsafe.Sizeof(all[0])
			if addr >= base && addr < base+uintptr(len(all))*sz && (addr-base)%sz == 0 {
				fmt.Fprintf(b, "&tok[%d]", (addr-base)/sz)
				return
			}
		}
		b.WriteString("&")
		fingerprint(b, v.Elem(), all, depth+1)
	case reflect.Slice:
		fmt.Fprintf(b, "slice(len=%d)", v.Len())
	case reflect.Map:
		fmt.Fprintf(b, "map(len=%d)", v.Len())
	case reflect.Int, reflect.Int8, reflect.Int16, reflect.Int32, reflect.Int64:
		fmt.Fprintf(b, "%d", v.Int())
	case reflect.Uint, reflect.Uint8, reflect.Uint16, reflect.Uint32, reflect.Uint64, reflect.Uintptr:
		fmt.Fprintf(b, "%d", v.Uint())
	case reflect.Bool:
		fmt.Fprintf(b, "%v", v.Bool())
	case reflect.String:
		fmt.Fprintf(b, "%q", v.String())
	case reflect.Interface:
		if v.IsNil() {
			b.WriteString("nil")
		} else {
			fingerprint(b, v.Elem(), all, depth+1)
		}
	default:
		fmt.Fprintf(b, "<%s>", v.Kind())
	}
}

func (s *state) key(all []lexer.Token) string {
	var b strings.Builder
	probe := s.pl // observers run on a copy: computing the key of a state must not touch the state (an observer that
	// synchronises lazily would otherwise be helped along by the explorer itself)
	o := observe(&probe, all)
	fmt.Fprintf(&b, "%d,%d,%d|%d|", o.raw, o.peek, o.cursor, s.r)
	fingerprint(&b, reflect.ValueOf(&s.pl).Elem(), all, 0)
	for k := 0; k < 2; k++ {
		if !s.has[k] {
			b.WriteString("|-")
			continue
		}
		c := s.pl // copy
		c.LoadCheckpoint(s.slots[k])
		o := observe(&c, all)
		fmt.Fprintf(&b, "|%d,%d,%d;%d", o.raw, o.peek, o.cursor, s.sr[k])
	}
	return b.String()
}

type explorer struct {
	w      *hx.Worker
	stream string
	elide  string
	m      *model
	all    []lexer.Token // the real lexer's backing slice (from Range)
	seen   map[string]bool
}

func (e *explorer) fail(s *state, op, class string, exp, got any) {
	e.w.Violate(hx.Violation{
		Key:    fmt.Sprintf("stream=%q elide=%q ops=%s%s", e.stream, e.elide, s.path, op),
		Class:  class,
		Detail: map[string]any{"expected": fmt.Sprint(exp), "got": fmt.Sprint(got)},
	})
}

// checkState compares every passive observation of the real lexer with the model.
func (e *explorer) checkState(s *state) bool {
	m := e.m
	ok := true
	pan, msg := hx.Guard(func() {
		pl := s.pl
		if int(pl.RawCursor()) != s.r {
			e.fail(s, "", "RawCursor", s.r, pl.RawCursor())
			ok = false
		}
		if pl.Cursor() != m.cur(s.r) {
			e.fail(s, "", "Cursor", m.cur(s.r), pl.Cursor())
			ok = false
		}
		if i := idxOf(e.all, pl.Peek()); i != m.ne(s.r) {
			e.fail(s, "", "Peek", m.ne(s.r), i)
			ok = false
		}
		if i := idxOf(e.all, pl.RawPeek()); i != s.r {
			e.fail(s, "", "RawPeek", s.r, i)
			ok = false
		}
		cp := pl.MakeCheckpoint()
		if int(cp.RawCursor()) != s.r || cp.Cursor() != m.cur(s.r) {
			e.fail(s, "", "Checkpoint-accessors", fmt.Sprint(s.r, m.cur(s.r)), fmt.Sprint(cp.RawCursor(), cp.Cursor()))
			ok = false
		}
		for i, p := range preds {
			c := pl
			t, rc := c.PeekAny(p.f)
			exp := m.peekAny(s.r, p.f)
			if int(rc) != exp || t != m.T[exp] {
				e.fail(s, fmt.Sprintf(" PeekAny(%s)", preds[i].name), "PeekAny", exp, rc)
				ok = false
			}
			if observe(&c, e.all) != observe(&pl, e.all) {
				e.fail(s, fmt.Sprintf(" PeekAny(%s)", preds[i].name), "PeekAny-mutates", "", "")
				ok = false
			}
		}
		// a predicate may look at the lexer it is called from, and may panic (the caller recovering): neither
		// sees nor leaves the lexer anywhere but where it is
		{
			c := pl
			wandered := ""
			c.PeekAny(func(t lexer.Token) bool {
				if int(c.RawCursor()) != s.r || idxOf(e.all, c.RawPeek()) != s.r {
					wandered = fmt.Sprintf("while the predicate looked at token %d: RawCursor %d, RawPeek token %d", t.Pos.Offset, c.RawCursor(), idxOf(e.all, c.RawPeek()))
				}
				return false
			})
			if wandered != "" {
				e.fail(s, " PeekAny(predicate that reads the lexer)", "PeekAny-mutates", fmt.Sprintf("raw cursor %d throughout the scan", s.r), wandered)
				ok = false
			}
			for _, giveUpAt := range []int{1, 2, 3} {
				c2 := pl
				calls := 0
				func() {
					defer func() { _ = recover() }()
					c2.PeekAny(func(t lexer.Token) bool {
						calls++
						if calls == giveUpAt {
							panic("predicate gives up")
						}
						return false
					})
				}()
				if observe(&c2, e.all) != observe(&pl, e.all) || int(c2.RawCursor()) != s.r {
					e.fail(s, fmt.Sprintf(" PeekAny(predicate that panics at its call #%d)", giveUpAt), "PeekAny-mutates", fmt.Sprint(observe(&pl, e.all)), fmt.Sprint(observe(&c2, e.all)))
					ok = false
				}
			}
		}
		for i := 0; i <= m.n+1; i++ {
			for j := i; j <= m.n+1; j++ {
				rg := pl.Range(lexer.RawCursor(i), lexer.RawCursor(j))
				if len(rg) != j-i || (len(rg) > 0 && &rg[0] != &e.all[i]) {
					e.fail(s, fmt.Sprintf(" Range(%d,%d)", i, j), "Range", "", "")
					ok = false
				}
			}
		}
		e.w.Count("transitions", int64(4+len(preds)+(m.n+2)*(m.n+3)/2))
	})
	if pan {
		e.fail(s, "", "panic", "no panic", msg)
		return false
	}
	return ok
}

type op struct {
	name string
	// apply to real state; returns model successor and whether model equality is demanded
	do func(e *explorer, s *state) bool
}

func (e *explorer) successors(s *state) []*state {
	m := e.m
	var out []*state
	try := func(name string, f func(n *state) bool) {
		n := *s
		n.path = s.path + " " + name
		good := true
		pan, msg := hx.Guard(func() { good = f(&n) })
		e.w.Count("transitions", 1)
		if pan {
			e.fail(s, " "+name, "panic", "no panic", msg)
			return
		}
		if good {
			out = append(out, &n)
		}
	}
	try("Next", func(n *state) bool {
		t := n.pl.Next()
		exp := m.ne(s.r)
		if idxOf(e.all, t) != exp {
			e.fail(s, " Next", "Next-result", exp, idxOf(e.all, t))
			return false
		}
		if exp < m.n {
			n.r = exp + 1
		}
		return true
	})
	// FastForward to every cursor a PeekAny returns here
	ffSeen := map[int]bool{}
	for _, p := range preds {
		c := m.peekAny(s.r, p.f)
		if ffSeen[c] {
			continue
		}
		ffSeen[c] = true
		try(fmt.Sprintf("FastForward(%d)", c), func(n *state) bool {
			n.pl.FastForward(lexer.RawCursor(c))
			if c < m.n {
				n.r = c + 1
			} else {
				n.r = c
			}
			return true
		})
	}
	// FastForward to any other in-range cursor: the statement only constrains the invariants
	// (monotone, consistent, in range); the successor's model state is re-derived from the
	// implementation's own raw cursor and then held to the invariants by checkState.
	for c := 0; c <= m.n; c++ {
		if ffSeen[c] {
			continue
		}
		try(fmt.Sprintf("FastForward*(%d)", c), func(n *state) bool {
			n.pl.FastForward(lexer.RawCursor(c))
			nr := int(n.pl.RawCursor())
			if nr < s.r || nr > m.n {
				e.fail(s, fmt.Sprintf(" FastForward*(%d)", c), "FastForward-range", fmt.Sprintf(">=%d,<=%d", s.r, m.n), nr)
				return false
			}
			n.r = nr
			return true
		})
	}
	for k := 0; k < 2; k++ {
		k := k
		try(fmt.Sprintf("Save%d", k), func(n *state) bool {
			n.slots[k] = n.pl.MakeCheckpoint()
			n.has[k] = true
			n.sr[k] = s.r
			return true
		})
		if s.has[k] {
			try(fmt.Sprintf("Load%d", k), func(n *state) bool {
				n.pl.LoadCheckpoint(s.slots[k])
				n.r = s.sr[k]
				return true
			})
		}
	}
	return out
}

func (e *explorer) run() {
	typeNames, elideSet := splitElide(e.elide)
	toks := mkTokens(e.stream, typeNames)
	var el []lexer.TokenType
	elide := map[lexer.TokenType]bool{}
	for i := 0; i < len(elideSet); i++ {
		el = append(el, typeNames[elideSet[i]])
		elide[typeNames[elideSet[i]]] = true
	}
	var pl *lexer.PeekingLexer
	var err error
	// another lexer, upgraded just before with a different set (both elidable types): nothing carries over;
	// and the list of this one names its first type twice, as composed option lists do
	_, _ = lexer.Upgrade(&sliceLexer{toks: toks}, typeNames['e'], typeNames['f'])
	if len(el) > 0 {
		el = append(el, el[0])
	}
	pan, msg := hx.Guard(func() { pl, err = lexer.Upgrade(&sliceLexer{toks: toks}, el...) })
	// the caller owns the slice it passed and re-uses it: the lexer's elision set must not follow
	for i := range el {
		el[i] = typeNames['X']
	}
	init := &state{}
	if pan || err != nil {
		e.fail(init, "Upgrade", "panic", "no panic", msg+fmt.Sprint(err))
		return
	}
	e.m = &model{T: toks, elide: elide, n: len(toks) - 1}
	pan, msg = hx.Guard(func() { e.all = pl.Range(0, lexer.RawCursor(len(toks))) })
	if pan || len(e.all) != len(toks) {
		e.fail(init, "Range(all)", "panic", "no panic", msg)
		return
	}
	for i := range toks {
		if e.all[i] != toks[i] {
			e.fail(init, "Upgrade", "Upgrade-tokens", toks[i], e.all[i])
			return
		}
	}
	init.pl = *pl
	e.seen = map[string]bool{}
	frontier := []*state{init}
	e.seen[init.key(e.all)] = true
	maxDepth := 0
	for len(frontier) > 0 {
		s := frontier[0]
		frontier = frontier[1:]
		e.w.Count("states", 1)
		if !e.checkState(s) {
			continue // do not explore beyond a state that already violates
		}
		for _, n := range e.successors(s) {
			var k string
			pan, msg := hx.Guard(func() { k = n.key(e.all) })
			if pan {
				e.fail(n, "", "panic", "no panic", msg)
				continue
			}
			if !e.seen[k] {
				e.seen[k] = true
				if d := strings.Count(n.path, " "); d > maxDepth {
					maxDepth = d
				}
				frontier = append(frontier, n)
			}
		}
	}
	e.w.Count("evaluations", 1)
	e.w.Count("traces_validated_against_impl", int64(len(e.seen)))
	e.w.DistinctS(fmt.Sprintf("%s/%s/%d", e.stream, e.elide, len(e.seen)))
	if len(e.stream) >= 3 {
		e.w.Sample(map[string]any{"stream": e.stream, "elide": e.elide, "reachable_states": len(e.seen), "max_bfs_depth": maxDepth})
	}
}

// runLong: streams with very long runs of elided tokens (lengths around 2^8 and 2^16: anything that keeps a
// distance or a count in a narrow integer wraps there). A fixed walk instead of the full search, and only
// the cheap observations (no Range over all pairs).
func runLong(w *hx.Worker, n int) {
	var toks []lexer.Token
	add := func(t lexer.TokenType, v string) {
		toks = append(toks, lexer.Token{Type: t, Value: v, Pos: lexer.Position{Offset: len(toks), Line: 1, Column: len(toks) + 1}})
	}
	add(tX, "X")
	for i := 0; i < n; i++ {
		add(tE, "e")
	}
	add(tY, "Y")
	add(tF, "f")
	add(tX, "X")
	toks = append(toks, lexer.EOFToken(lexer.Position{Offset: len(toks), Line: 1, Column: len(toks) + 1}))
	m := &model{T: toks, elide: map[lexer.TokenType]bool{tE: true, tF: true}, n: len(toks) - 1}
	key := fmt.Sprintf("long stream X e^%d Y f X", n)
	w.Count("evaluations", 1)
	pan, msg := hx.Guard(func() {
		pl, err := lexer.Upgrade(&sliceLexer{toks: toks}, tE, tF)
		if err != nil {
			panic(err)
		}
		all := pl.Range(0, lexer.RawCursor(len(toks)))
		r := 0
		step := 0
		check := func(what string) bool {
			step++
			w.Count("states", 1)
			got := fmt.Sprint(int(pl.RawCursor()), pl.Cursor(), pl.Peek().Pos.Offset, pl.RawPeek().Pos.Offset)
			want := fmt.Sprint(r, m.cur(r), m.ne(r), r)
			for _, p := range preds[:4] {
				c := *pl
				_, rc := c.PeekAny(p.f)
				got += fmt.Sprint(" ", int(rc))
				want += fmt.Sprint(" ", m.peekAny(r, p.f))
			}
			if got != want {
				w.Violate(hx.Violation{Key: key + fmt.Sprintf(" :: step %d (%s)", step, what), Class: "long-run", Detail: map[string]any{"raw,cursor,peek,rawpeek,PeekAny(never,always,isE,isF)": got, "expected": want}})
				return false
			}
			return true
		}
		_ = all
		next := func() {
			pl.Next()
			if e := m.ne(r); e < m.n {
				r = e + 1
			}
		}
		if !check("fresh") {
			return
		}
		cp0, r0 := pl.MakeCheckpoint(), r
		next() // X
		if !check("Next") {
			return
		}
		cp1, r1 := pl.MakeCheckpoint(), r
		next() // Y, over the run
		if !check("Next over the run") {
			return
		}
		pl.LoadCheckpoint(cp1)
		r = r1
		if !check("LoadCheckpoint before the run") {
			return
		}
		// into the middle of the run: FastForward to the cursor PeekAny(isE) returns, a few times
		for k := 0; k < 3; k++ {
			_, rc := pl.PeekAny(preds[2].f)
			pl.FastForward(rc)
			if int(rc) < m.n {
				r = int(rc) + 1
			} else {
				r = int(rc)
			}
			if !check("FastForward into the run") {
				return
			}
		}
		cp2, r2 := pl.MakeCheckpoint(), r
		next()
		next()
		next()
		next()
		if !check("Next to EOF and beyond") {
			return
		}
		pl.LoadCheckpoint(cp2)
		r = r2
		if !check("LoadCheckpoint inside the run") {
			return
		}
		pl.LoadCheckpoint(cp0)
		r = r0
		check("LoadCheckpoint at the start")
	})
	if pan {
		w.Violate(hx.Violation{Key: key, Class: "panic", Detail: map[string]any{"panic": msg}})
	}
	w.DistinctS(key)
}

var longRuns = []int{254, 255, 256, 257, 65534, 65535, 65536, 65537, 70000, 131072, 131073}

type jobT struct{ stream, elide string }

func jobs(maxLen int) []jobT {
	var streams []string
	var rec func(p string)
	rec = func(p string) {
		streams = append(streams, p)
		if len(p) == maxLen {
			return
		}
		for _, c := range "XYef" {
			rec(p + string(c))
		}
	}
	rec("")
	var out []jobT
	for _, s := range streams {
		for _, el := range []string{"ef", "e", "", "ef$"} { // "$": the EOF type itself is in the elision set
			out = append(out, jobT{s, el})
		}
		if len(s) < maxLen {
			for _, el := range []string{"B:ef", "B:e", "C:ef", "C:e"} {
				out = append(out, jobT{s, el})
			}
		}
	}
	return out
}

func plan(c *hx.Ctx) *hx.Plan {
	maxLen := 5
	if !c.Quick() {
		maxLen = 7
	}
	js := jobs(maxLen)
	return &hx.Plan{
		N: len(js) + len(longRuns),
		Job: func(w *hx.Worker, i int) {
			if i >= len(js) {
				runLong(w, longRuns[i-len(js)])
				return
			}
			w.Case(func() string { return fmt.Sprintf("stream=%q elide=%q", js[i].stream, js[i].elide) })
			(&explorer{w: w, stream: js[i].stream, elide: js[i].elide}).run()
		},
		Describe: func(i int) string {
			if i >= len(js) {
				return fmt.Sprintf("long stream X e^%d Y f X", longRuns[i-len(js)])
			}
			return fmt.Sprintf("stream=%q elide=%q", js[i].stream, js[i].elide)
		},
		Rule:   "every token stream of length <= bound over {X,Y (ordinary), e,f (elidable)} x elision sets {ef, e, none, ef+EOF} (+ for streams below the bound: two further numberings of the token types in which ordinary and elided types are congruent modulo 32/64/128/256; the slice passed to Upgrade is overwritten by the caller afterwards); per stream BFS to a FIXPOINT over Next, FastForward(c) for every c (model equality for cursors a PeekAny returns, invariants for others), Save/Load of 2 checkpoint slots; in every reachable state all of Peek, RawPeek, Cursor, RawCursor, PeekAny x 8 predicates (by type, by position) and Range(i,j) for all i<=j are compared with the model. plus a fixed walk (Next, checkpoints, FastForward into the run) over streams with runs of 254..131073 elided tokens. evaluations = (stream, elision set) pairs; distinct_nontrivial = distinct (stream, elision, reachable-state-count) triples; states/transitions = real-object states visited / operations executed",
		Bounds: map[string]any{"max_stream_len": maxLen, "checkpoint_slots": 2, "predicates": len(preds), "search": "fixpoint (not depth bounded)"},
		Assume: []string{"token identity is observed through pointer identity into the lexer's own token slice (Range)", "streams longer than the bound behave like shorter ones (small-scope hypothesis)"},
	}
}

func replay(c *hx.Ctx, key string) []hx.Violation {
	// key: stream="..." elide="..." ops= ...   (ops are informational; the whole stream's state space is re-explored)
	var stream, elide string
	if strings.HasPrefix(key, "long stream X e^") {
		var n int
		fmt.Sscanf(key, "long stream X e^%d", &n)
		w := hx.NewReplayWorker()
		runLong(w, n)
		return w.Violations()
	}
	if i := strings.Index(key, "stream="); i >= 0 {
		rest := key[i+7:]
		q, err := strconv.QuotedPrefix(rest)
		if err == nil {
			stream, _ = strconv.Unquote(q)
		}
	}
	if i := strings.Index(key, "elide="); i >= 0 {
		rest := key[i+6:]
		q, err := strconv.QuotedPrefix(rest)
		if err == nil {
			elide, _ = strconv.Unquote(q)
		}
	}
	w := hx.NewReplayWorker()
	(&explorer{w: w, stream: stream, elide: elide}).run()
	return w.Violations()
}

func main() {
	hx.Main(&hx.Spec{Engine: "peekx", JobTimeout: 30 * time.Second, Levels: map[string]string{"C12": "model_checking"}, Plan: plan, Replay: replay})
}
