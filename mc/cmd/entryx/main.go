// entryx: all entry points of a parser / lexer definition agree (property C15).
package main

import (
	"bufio"
	"bytes"
	"encoding/json"
	"fmt"
	"io"
	"os"
	"reflect"
	"strings"
	"testing/iotest"
	"time"

	"github.com/alecthomas/participle/v2"
	"github.com/alecthomas/participle/v2/lexer"

	"verif/mc/gen/entrylex"
	"verif/mc/internal/gfam"
	g "verif/mc/internal/gmodel"
	"verif/mc/internal/hx"
	"verif/mc/internal/lexfam"
)

// ---- lexers

func statefulDef() *lexer.StatefulDefinition {
	b, err := os.ReadFile("/verif/mc/gen/entrylex/rules.json")
	if err != nil {
		panic(err)
	}
	var rules lexer.Rules
	if err := json.Unmarshal(b, &rules); err != nil {
		panic(err)
	}
	return lexer.MustStateful(rules)
}

// recording wrappers: implement only Lex / +LexString / +LexBytes, forwarding to the like-named method.
type recorder struct {
	calls []string
	toks  []lexer.Token
}

func (r *recorder) reset() { r.calls, r.toks = nil, nil }

type recLexer struct {
	inner lexer.Lexer
	r     *recorder
}

func (l *recLexer) Next() (lexer.Token, error) {
	t, err := l.inner.Next()
	if err == nil {
		l.r.toks = append(l.r.toks, t)
	}
	return t, err
}

type recDef struct {
	inner lexer.Definition
	r     *recorder
}

func (d *recDef) Symbols() map[string]lexer.TokenType { return d.inner.Symbols() }
func (d *recDef) Lex(filename string, rd io.Reader) (lexer.Lexer, error) {
	d.r.calls = append(d.r.calls, "Lex")
	l, err := d.inner.Lex(filename, rd)
	if err != nil {
		return nil, err
	}
	return &recLexer{l, d.r}, nil
}

type recDefS struct{ recDef }

func (d *recDefS) LexString(filename, s string) (lexer.Lexer, error) {
	d.r.calls = append(d.r.calls, "LexString")
	l, err := d.inner.(lexer.StringDefinition).LexString(filename, s)
	if err != nil {
		return nil, err
	}
	return &recLexer{l, d.r}, nil
}

type recDefSB struct{ recDefS }

func (d *recDefSB) LexBytes(filename string, b []byte) (lexer.Lexer, error) {
	d.r.calls = append(d.r.calls, "LexBytes")
	l, err := d.inner.(lexer.BytesDefinition).LexBytes(filename, b)
	if err != nil {
		return nil, err
	}
	return &recLexer{l, d.r}, nil
}

// ---- grammars (model ASTs; built as reflect.StructOf types like in gramx)

func grammars() []*g.Prod {
	id := func() *g.Node { return gfam.CapMark(g.Ref("Ident")) }
	sub := func() *g.Prod { return gfam.AssignOwn("S", g.Seq(id(), g.Grp(g.Lit("b"), '?'))) }
	bodies := []*g.Node{
		g.Grp(id(), '*'),
		g.Seq(g.Lit("a"), id()),
		g.Seq(id(), g.Grp(g.Alt(g.Lit("b"), id()), '*')),
		g.Alt(g.Seq(g.Lit("a"), g.Lit("b"), id()), g.Seq(g.Lit("a"), id())),
		g.Seq(g.Grp(g.Sub(-1, sub()), '*'), g.Grp(g.Lit("c"), '?')),
		g.Seq(gfam.CapMark(g.Neg(g.Lit("a"))), g.Grp(id(), '*')),
		g.Seq(g.Look(g.Lit("a"), '='), id(), g.Grp(id(), '?')),
		g.Seq(g.Grp(g.Seq(id(), g.Lit("b")), '+'), g.Grp(id(), '?')),
		g.Seq(gfam.CapMark(g.Seq(g.Ref("Ident"), g.Ref("Ident"))), g.Grp(g.Lit("c"), '!')),
		g.Seq(g.Grp(g.Sub(-1, sub()), '?'), id()),
		// two optional branches that fail at the same token, the first of them one production deeper
		g.Seq(g.Grp(g.Sub(-1, gfam.AssignOwn("T", g.Seq(g.Lit("a"), g.Lit("b"), gfam.CapMark(g.Lit("c"))))), '?'), g.Grp(g.Seq(g.Lit("a"), g.Lit("b"), gfam.CapMark(g.Lit("a"))), '?'), id()),
		g.Seq(g.Grp(g.Seq(g.Lit("a"), g.Lit("b"), gfam.CapMark(g.Lit("a"))), '?'), g.Grp(g.Sub(-1, gfam.AssignOwn("T", g.Seq(g.Lit("a"), g.Lit("b"), gfam.CapMark(g.Lit("c"))))), '?'), id()),
	}
	var out []*g.Prod
	for _, b := range bodies {
		out = append(out, gfam.AssignOwn("G", b))
	}
	return out
}

// ---- parser configurations

type lexKind struct {
	name     string
	def      func() lexer.Definition
	alphabet []string
	elide    []string
	strType  string
}

// a lexer with nested states (strings with interpolation), for properties of live lexers of one definition
func nestedDef() *lexer.StatefulDefinition {
	return lexer.MustStateful(lexer.Rules{
		"Root": {
			{Name: "Ident", Pattern: `[a-zA-Z]+`},
			{Name: "Int", Pattern: `[0-9]+`},
			{Name: "DQ", Pattern: `"`, Action: lexer.Push("InD")},
			{Name: "SQ", Pattern: `'`, Action: lexer.Push("InS")},
			{Name: "Punct", Pattern: `;`},
			{Name: "Close", Pattern: `\}`, Action: lexer.Pop()},
			{Name: "Space", Pattern: `[ \n]+`},
			{Name: "Comment", Pattern: `#[^\n]*`},
		},
		"InD": {
			{Name: "DQEnd", Pattern: `"`, Action: lexer.Pop()},
			{Name: "Interp", Pattern: `\{`, Action: lexer.Push("Root")},
			{Name: "Str", Pattern: `[^"{]+`},
		},
		"InS": {
			{Name: "SQEnd", Pattern: `'`, Action: lexer.Pop()},
			{Name: "Chars", Pattern: `[^']+`},
		},
	})
}

// namedReader has a name of its own, like *os.File.
type namedReader struct{ *strings.Reader }

func (namedReader) Name() string { return "name-of-reader.txt" }

func lexKinds() []lexKind {
	st := statefulDef()
	nd := nestedDef()
	alphaS := []string{"a", "b", "c", " ", "#", "\n", ";", "\"", "1", "$"}
	return []lexKind{
		{"text/scanner", func() lexer.Definition { return lexer.TextScannerLexer }, []string{"a", "b", "c", " ", "/", "\n", ";", "\"", "1", "\xff"}, []string{"Comment"}, "String"},
		{"stateful", func() lexer.Definition { return st }, alphaS, []string{"Space", "Comment"}, "Str"},
		{"generated", func() lexer.Definition { return entrylex.EntryLexer }, alphaS, []string{"Space", "Comment"}, "Str"},
		{"stateful-nested-states", func() lexer.Definition { return nd }, []string{"a", "\"", "'", "{", "}", " "}, []string{"Space", "Comment"}, "Str"},
		{"stateful-wrapped-Lex", func() lexer.Definition { return &recDef{st, &recorder{}} }, alphaS, []string{"Space", "Comment"}, "Str"},
		{"stateful-wrapped-LexString", func() lexer.Definition { return &recDefS{recDef{st, &recorder{}}} }, alphaS, []string{"Space", "Comment"}, "Str"},
		{"generated-wrapped-LexBytes", func() lexer.Definition { return &recDefSB{recDefS{recDef{entrylex.EntryLexer, &recorder{}}}} }, alphaS, []string{"Space", "Comment"}, "Str"},
	}
}

type optSet struct {
	name string
	mk   func(k lexKind) []participle.Option
}

func optSets() []optSet {
	return []optSet{
		{"plain", func(k lexKind) []participle.Option { return nil }},
		{"Elide", func(k lexKind) []participle.Option { return []participle.Option{participle.Elide(k.elide...)} }},
		{"Elide+Upper", func(k lexKind) []participle.Option {
			return []participle.Option{participle.Elide(k.elide...), participle.Upper("Ident")}
		}},
		{"Elide+Unquote", func(k lexKind) []participle.Option {
			return []participle.Option{participle.Elide(k.elide...), participle.Unquote(k.strType)}
		}},
		{"Elide+3 untyped Map+Upper+Unquote", func(k lexKind) []participle.Option {
			id := func(t lexer.Token) (lexer.Token, error) { return t, nil }
			return []participle.Option{participle.Elide(k.elide...), participle.Map(id), participle.Upper("Ident"), participle.Map(id), participle.Unquote(k.strType), participle.Map(id)}
		}},
		{"Elide+CaseInsensitive", func(k lexKind) []participle.Option {
			return []participle.Option{participle.Elide(k.elide...), participle.CaseInsensitive("Ident")}
		}},
		{"Elide+Map(err on c)", func(k lexKind) []participle.Option {
			return []participle.Option{participle.Elide(k.elide...), participle.Map(func(t lexer.Token) (lexer.Token, error) {
				if t.Value == "c" {
					return t, participle.Errorf(t.Pos, "mapper refuses %q", t.Value)
				}
				t.Value = strings.Repeat(t.Value, 2)
				return t, nil
			}, "Ident")}
		}},
	}
}

type result struct {
	ok       bool
	ast      string
	errText  string
	errType  string
	errPos   string
	panicked string
}

func (r result) String() string {
	return fmt.Sprintf("ok=%v ast=%s err=%q type=%s pos=%s panic=%q", r.ok, r.ast, r.errText, r.errType, r.errPos, r.panicked)
}

func capture(f func() (*any, error)) result {
	var r result
	pan, msg := hx.Guard(func() {
		v, err := f()
		if err != nil {
			r.errText = err.Error()
			r.errType = fmt.Sprintf("%T", err)
			if pe, ok := err.(participle.Error); ok {
				r.errPos = fmt.Sprintf("%#v", pe.Position())
			}
			if v != nil && *v != nil {
				r.ast = g.RenderValue(reflect.ValueOf(*v), true)
			} else if v == nil {
				r.ast = "<nil>"
			}
			return
		}
		r.ok = true
		if v != nil && *v != nil {
			r.ast = g.RenderValue(reflect.ValueOf(*v), true)
		}
	})
	if pan {
		r.panicked = msg
	}
	return r
}

type job struct {
	k  lexKind
	os optSet
	gi int
	gr *g.Prod
	lk int
}

func jobs(quick bool) []job {
	var out []job
	grs := grammars()
	lks := []int{1, 3}
	if quick {
		lks = []int{1}
	}
	for _, k := range lexKinds() {
		for _, os := range optSets() {
			for gi, gr := range grs {
				for _, lk := range lks {
					out = append(out, job{k, os, gi, gr, lk})
				}
				if quick && k.name == "stateful" && (os.name == "plain" || os.name == "Elide") {
					out = append(out, job{k, os, gi, gr, 5}) // a lookahead beyond every branch of these grammars
				}
			}
		}
	}
	return out
}

func elidedTypes(def lexer.Definition, opts string, k lexKind) []lexer.TokenType {
	if !strings.Contains(opts, "Elide") {
		return nil
	}
	var out []lexer.TokenType
	for _, n := range k.elide {
		out = append(out, def.Symbols()[n])
	}
	return out
}

func runJob(w *hx.Worker, j job, maxLen int, only string) {
	desc := fmt.Sprintf("lexer=%s opts=%s lookahead=%d grammar=%s", j.k.name, j.os.name, j.lk, j.gr.Source())
	def := j.k.def()
	tc := g.TypeCache{}
	rootT := tc.GoType(j.gr)
	opts := append([]participle.Option{participle.Lexer(def), participle.UseLookahead(j.lk), participle.Union[any](reflect.New(rootT).Elem().Interface())}, j.os.mk(j.k)...)
	var p *participle.Parser[any]
	var err error
	pan, msg := hx.Guard(func() { p, err = participle.Build[any](opts...) })
	if pan || err != nil {
		w.Violate(hx.Violation{Key: desc, Class: "build-failed", Detail: map[string]any{"err": fmt.Sprint(err), "panic": msg}})
		return
	}
	var rec *recorder
	switch d := def.(type) {
	case *recDef:
		rec = d.r
	case *recDefS:
		rec = d.r
	case *recDefSB:
		rec = d.r
	}
	elided := elidedTypes(def, j.os.name, j.k)
	names := j.k.elide
	if elided == nil {
		names = nil
	}
	ins := lexfam.Inputs(j.k.alphabet, maxLen)
	nShort := len(ins)
	// a few longer inputs that contain several token types at once (identifier, string, number, comment)
	ins = append(ins, `a "b" c`, `"x" y`, `a "b`, `b 1 "c" a`, "a \"b\"\n c", `c "c" c`)
	ins = append(ins, "a b b", "a b x", "a b c", "a b a", "a b", "\ufeffa b", "a \ufeff b", "A b", "a B A", "B", strings.Repeat("a", 100)+" b", "b "+strings.Repeat("c", 5000), strings.Repeat("a ", 1100))
	if j.k.name == "text/scanner" {
		ins = append(ins, "a /* x */ \"b\"", "a // x\n b")
	} else {
		ins = append(ins, "a # x\n \"b\"", "a ; b # c")
	}
	for ii, in := range ins {
		for _, fn := range []string{"", "f"} {
			for _, at := range []bool{false, true} {
				key := fmt.Sprintf("%s :: in=%q file=%q trailing=%v", desc, in, fn, at)
				if only != "" && only != key {
					continue
				}
				if ii >= nShort {
					// the longer inputs are each given to a parser that has never parsed anything, so that the
					// first call on a parser is compared with the later ones (the short inputs share one parser)
					pan, msg := hx.Guard(func() { p, err = participle.Build[any](opts...) })
					if pan || err != nil {
						w.Violate(hx.Violation{Key: desc, Class: "build-failed", Detail: map[string]any{"err": fmt.Sprint(err), "panic": msg}})
						return
					}
				}
				w.Case(func() string { return key })
				w.Count("evaluations", 1)
				popt := participle.AllowTrailing(at)
				type ep struct {
					name string
					f    func() (*any, error)
				}
				var lexAfter *lexer.PeekingLexer
				var lexErr error
				eps := []ep{
					{"ParseString", func() (*any, error) { return p.ParseString(fn, in, popt) }},
					{"Parse(reader)", func() (*any, error) { return p.Parse(fn, strings.NewReader(in), popt) }},
					{"ParseBytes", func() (*any, error) { return p.ParseBytes(fn, []byte(in), popt) }},
					{"ParseBytes(buffer reused afterwards)", func() (*any, error) {
						b := []byte(in)
						v, err := p.ParseBytes(fn, b, popt)
						for i := range b {
							b[i] = 'z' // the caller owns the buffer again: the result must not alias it
						}
						return v, err
					}},
					{"ParseFromLexer", func() (*any, error) {
						lx, err := p.Lexer().Lex(fn, strings.NewReader(in))
						if err != nil {
							return nil, err
						}
						pl, err := lexer.Upgrade(lx, elided...)
						if err != nil {
							lexErr = err
							return nil, err
						}
						v, err := p.ParseFromLexer(pl, popt)
						lexAfter = pl
						return v, err
					}},
					{"ParseString+Trace", func() (*any, error) { return p.ParseString(fn, in, popt, participle.Trace(io.Discard)) }},
					// readers that are not at their beginning / not plain: only the remaining text is the input
					{"Parse(strings.Reader after Seek)", func() (*any, error) {
						r := strings.NewReader("zz" + in)
						_, _ = r.Seek(2, io.SeekStart)
						return p.Parse(fn, r, popt)
					}},
					{"Parse(bytes.Reader after ReadByte)", func() (*any, error) {
						r := bytes.NewReader([]byte("z" + in))
						_, _ = r.ReadByte()
						return p.Parse(fn, r, popt)
					}},
					{"Parse(bufio.Reader)", func() (*any, error) { return p.Parse(fn, bufio.NewReaderSize(strings.NewReader(in), 16), popt) }},
					{"Parse(one byte at a time)", func() (*any, error) { return p.Parse(fn, iotest.OneByteReader(strings.NewReader(in)), popt) }},
					{"Parse(reader that has a Name(), filename given)", func() (*any, error) {
						if fn == "" {
							return p.Parse(fn, strings.NewReader(in), popt) // the reader's name is the documented fallback for an empty filename
						}
						return p.Parse(fn, namedReader{strings.NewReader(in)}, popt)
					}},
					{"Parse(last bytes together with io.EOF)", func() (*any, error) { return p.Parse(fn, iotest.DataErrReader(strings.NewReader(in)), popt) }},
					{"Parse(one byte at a time, last one with io.EOF)", func() (*any, error) {
						return p.Parse(fn, iotest.DataErrReader(iotest.OneByteReader(strings.NewReader(in))), popt)
					}},
				}
				var results []result
				var recorded [][]lexer.Token
				var calls [][]string
				for _, e := range eps {
					if rec != nil {
						rec.reset()
					}
					results = append(results, capture(e.f))
					if rec != nil {
						recorded = append(recorded, append([]lexer.Token{}, rec.toks...))
						calls = append(calls, append([]string{}, rec.calls...))
					}
				}
				bad := false
				for i := 1; i < len(results); i++ {
					a, b := results[0], results[i]
					if eps[i].name == "ParseFromLexer" && !a.ok && b.ast == "<nil>" && a.ast == "<nil>" {
						// lexing failed in both: compare the errors only
					}
					if a != b {
						w.Violate(hx.Violation{Key: key, Class: "entry-points-disagree:" + eps[i].name, Detail: map[string]any{"ParseString": a.String(), eps[i].name: b.String()}})
						bad = true
						break
					}
				}
				if !bad && ii >= nShort && fn == "f" && !at && rec == nil {
					// whichever entry point is the FIRST call on a parser gives what it gives as a later call
					for i := 1; i < len(eps) && !bad; i++ {
						pan, msg := hx.Guard(func() { p, err = participle.Build[any](opts...) })
						if pan || err != nil {
							w.Violate(hx.Violation{Key: desc, Class: "build-failed", Detail: map[string]any{"err": fmt.Sprint(err), "panic": msg}})
							return
						}
						w.Count("evaluations", 1)
						if r := capture(eps[i].f); r != results[i] {
							w.Violate(hx.Violation{Key: key, Class: "entry-points-disagree:" + eps[i].name + " as the first call on a parser", Detail: map[string]any{"as_first_call": r.String(), "as_later_call": results[i].String()}})
							bad = true
						}
					}
				}
				if bad {
					continue
				}
				if results[0].panicked != "" {
					w.Count("cases_where_parse_panics_consistently (judged by C06)", 1)
					continue
				}
				// Parser.Lex returns exactly the tokens those calls consume
				toks, lerr := p.Lex(fn, strings.NewReader(in))
				if rec != nil && lerr == nil {
					// the raw (pre-mapper) stream every entry point pulled from the definition
					raw, rerr := lexer.ConsumeAll(mustLex(j.k, fn, in))
					for i := range recorded {
						if rerr == nil && !reflect.DeepEqual(recorded[i], raw) {
							w.Violate(hx.Violation{Key: key, Class: "tokens-consumed-differ:" + eps[i].name, Detail: map[string]any{"consumed": fmt.Sprint(recorded[i]), "definition_stream": fmt.Sprint(raw), "calls": fmt.Sprint(calls[i])}})
							bad = true
							break
						}
					}
					if !bad && !strings.Contains(j.os.name, "Map") && !strings.Contains(j.os.name, "Upper") && !strings.Contains(j.os.name, "Unquote") && rerr == nil && !reflect.DeepEqual(toks, raw) {
						w.Violate(hx.Violation{Key: key, Class: "Parser.Lex-differs-from-consumed-tokens", Detail: map[string]any{"Parser.Lex": fmt.Sprint(toks), "consumed": fmt.Sprint(raw)}})
						bad = true
					}
				}
				if bad {
					continue
				}
				if lerr != nil {
					w.Count("inputs_unlexable", 1)
					if results[0].ok {
						w.Violate(hx.Violation{Key: key, Class: "parse-succeeds-but-Parser.Lex-fails", Detail: map[string]any{"lex_error": lerr.Error()}})
					}
					_ = lexErr
					w.DistinctS("lexerr")
					continue
				}
				// model: verdict, AST and the position after ParseFromLexer with trailing input
				var ci []string
				if strings.Contains(j.os.name, "CaseInsensitive") {
					ci = []string{"Ident"}
				}
				env := g.NewEnv(toks, p.Lexer().Symbols(), names, ci, j.lk, at)
				out := env.Parse(j.gr, true)
				w.Count("transitions", env.Steps)
				if !out.Diag {
					w.Count("traces_validated_against_impl", 1)
					if out.Accept != results[0].ok {
						w.Violate(hx.Violation{Key: key, Class: "verdict-differs-from-reference-semantics", Detail: map[string]any{"impl": results[0].String(), "model_accepts": out.Accept}})
						continue
					}
					if out.Accept && lexAfter != nil {
						wantIdx := out.End
						for wantIdx < len(toks)-1 && isElided(toks[wantIdx].Type, elided) {
							wantIdx++
						}
						got := *lexAfter.Peek()
						if got != toks[wantIdx] {
							w.Violate(hx.Violation{Key: key, Class: "lexer-position-after-ParseFromLexer", Detail: map[string]any{"peek": fmt.Sprintf("%#v", got), "expected_first_unconsumed": fmt.Sprintf("%#v", toks[wantIdx])}})
							continue
						}
					}
				}
				w.DistinctS(results[0].ast + results[0].errText)
				if len(in) >= 3 && results[0].ok && fn == "f" {
					w.Sample(map[string]any{"parser": desc, "input": in, "ast": results[0].ast})
				}
			}
		}
	}
	// a definition's Lex / LexString / LexBytes yield identical streams
	if j.gi == 0 && j.os.name == "plain" && j.lk == 1 {
		for _, in := range lexfam.Inputs(j.k.alphabet, maxLen+1) {
			key := fmt.Sprintf("definition=%s :: in=%q", j.k.name, in)
			w.Count("evaluations", 1)
			type st struct {
				toks []lexer.Token
				err  string
			}
			var streams []st
			var namesS []string
			add := func(n string, lx lexer.Lexer, err error) {
				s := st{}
				if err != nil {
					s.err = err.Error()
				} else {
					t, e := lexer.ConsumeAll(lx)
					s.toks = t
					if e != nil {
						s.err = e.Error()
					}
				}
				streams = append(streams, s)
				namesS = append(namesS, n)
			}
			// all three lexers alive at the same time and advanced in turn give the same streams
			{
				var lxs []lexer.Lexer
				var buf []byte
				if l, err := def.Lex("f", strings.NewReader(in)); err == nil {
					lxs = append(lxs, l)
				}
				if sd, ok := def.(lexer.StringDefinition); ok {
					if l, err := sd.LexString("f", in); err == nil {
						lxs = append(lxs, l)
					}
				}
				if bd, ok := def.(lexer.BytesDefinition); ok {
					buf = []byte(in)
					if l, err := bd.LexBytes("f", buf); err == nil {
						lxs = append(lxs, l)
					}
				}
				toks := make([][]lexer.Token, len(lxs))
				outs := make([]string, len(lxs))
				done := make([]bool, len(lxs))
				for step := 0; step < len(in)+3; step++ {
					for i, l := range lxs {
						if done[i] {
							continue
						}
						var t lexer.Token
						var err error
						pan, msg := hx.Guard(func() { t, err = l.Next() })
						switch {
						case pan:
							outs[i] += "PANIC " + msg
							done[i] = true
						case err != nil:
							outs[i] += "ERR " + err.Error()
							done[i] = true
						default:
							toks[i] = append(toks[i], t)
							if t.EOF() {
								done[i] = true
							}
						}
					}
				}
				// staggered: one lexer takes a single token, a second one is drained completely, the first continues
				if l1, err := def.Lex("f", strings.NewReader(in)); err == nil {
					if l2, err := def.Lex("f", strings.NewReader(in)); err == nil {
						var s1, s2 string
						stepN := func(l lexer.Lexer, n int, out *string) {
							for k := 0; k < n; k++ {
								var t lexer.Token
								var err error
								pan, msg := hx.Guard(func() { t, err = l.Next() })
								if pan {
									*out += "PANIC " + msg
									return
								}
								if err != nil {
									*out += "ERR " + err.Error()
									return
								}
								*out += fmt.Sprintf("%d:%q@%d,", t.Type, t.Value, t.Pos.Offset)
								if t.EOF() {
									return
								}
							}
						}
						stepN(l1, 1, &s1)
						stepN(l2, len(in)+3, &s2)
						if !strings.Contains(s1, "ERR") && !strings.Contains(s1, "PANIC") && !strings.HasSuffix(s1, `""@`+fmt.Sprint(len(in))+",") {
							stepN(l1, len(in)+3, &s1)
						}
						if s1 != s2 {
							w.Violate(hx.Violation{Key: key, Class: "definition-lexers-interfere-or-alias", Detail: map[string]any{"staggered_first": s1, "drained_second": s2}})
						}
					}
				}
				// lexing is over: the caller reuses its buffer; tokens already handed out must not change
				for i := range buf {
					buf[i] = 'z'
				}
				for i := range toks {
					for _, t := range toks[i] {
						outs[i] += fmt.Sprintf("%d:%q@%d,", t.Type, t.Value, t.Pos.Offset)
					}
				}
				for i := 1; i < len(outs); i++ {
					if outs[i] != outs[0] {
						w.Violate(hx.Violation{Key: key, Class: "definition-lexers-interfere-or-alias", Detail: map[string]any{"first": outs[0], fmt.Sprintf("lexer#%d", i): outs[i]}})
						break
					}
				}
			}
			lx, err := def.Lex("f", strings.NewReader(in))
			add("Lex", lx, err)
			if sd, ok := def.(lexer.StringDefinition); ok {
				lx, err := sd.LexString("f", in)
				add("LexString", lx, err)
			}
			if bd, ok := def.(lexer.BytesDefinition); ok {
				lx, err := bd.LexBytes("f", []byte(in))
				add("LexBytes", lx, err)
			}
			for i := 1; i < len(streams); i++ {
				if !reflect.DeepEqual(streams[0], streams[i]) {
					w.Violate(hx.Violation{Key: key, Class: "definition-methods-disagree:" + namesS[i], Detail: map[string]any{"Lex": fmt.Sprint(streams[0]), namesS[i]: fmt.Sprint(streams[i])}})
					break
				}
			}
		}
	}
}

func isElided(t lexer.TokenType, elided []lexer.TokenType) bool {
	for _, e := range elided {
		if e == t {
			return true
		}
	}
	return false
}

func mustLex(k lexKind, fn, in string) lexer.Lexer {
	var inner lexer.Definition
	switch d := k.def().(type) {
	case *recDef:
		inner = d.inner
	case *recDefS:
		inner = d.inner
	case *recDefSB:
		inner = d.inner
	default:
		inner = d
	}
	lx, err := inner.Lex(fn, strings.NewReader(in))
	if err != nil {
		panic(err)
	}
	return lx
}

// ---- a root that implements Parseable: ParseFromLexer must still hand the lexer back positioned
// after what the root consumed

type PRoot struct {
	Words []string
}

func (r *PRoot) Parse(lex *lexer.PeekingLexer) error {
	for i := 0; i < 2; i++ {
		t := lex.Peek()
		if t.EOF() {
			return participle.NextMatch
		}
		r.Words = append(r.Words, t.Value)
		lex.Next()
	}
	return nil
}

type PPlain struct {
	A string `@Ident`
	B string `@Ident`
}

func runSpecial(w *hx.Worker) {
	st := statefulDef()
	space := st.Symbols()["Space"]
	pr, err1 := participle.Build[PRoot](participle.Lexer(st), participle.Elide("Space"))
	pp, err2 := participle.Build[PPlain](participle.Lexer(st), participle.Elide("Space"))
	if err1 != nil || err2 != nil {
		w.Violate(hx.Violation{Key: "special build", Class: "build-failed", Detail: map[string]any{"e": fmt.Sprint(err1, err2)}})
		return
	}
	for _, in := range lexfam.Inputs([]string{"a", "b", " ", ";"}, 5) {
		w.Count("evaluations", 1)
		mk := func() *lexer.PeekingLexer {
			lx, _ := st.Lex("", strings.NewReader(in))
			pl, err := lexer.Upgrade(lx, space)
			if err != nil {
				return nil
			}
			return pl
		}
		l1, l2 := mk(), mk()
		if l1 == nil {
			continue
		}
		var v1 *PRoot
		var v2 *PPlain
		var e1, e2 error
		pan, msg := hx.Guard(func() {
			v1, e1 = pr.ParseFromLexer(l1, participle.AllowTrailing(true))
			v2, e2 = pp.ParseFromLexer(l2, participle.AllowTrailing(true))
		})
		key := fmt.Sprintf("parseable-root :: in=%q", in)
		if pan {
			w.Violate(hx.Violation{Key: key, Class: "panic", Detail: map[string]any{"panic": msg}})
			continue
		}
		if (e1 == nil) != (e2 == nil) {
			// a Parseable root that consumes two identifiers and the plain two-identifier grammar accept the same inputs
			// only when both tokens are Ident; compare positions only when both succeed
			continue
		}
		if e1 == nil {
			if fmt.Sprint(v1.Words) != fmt.Sprint([]string{v2.A, v2.B}) {
				continue
			}
			if *l1.Peek() != *l2.Peek() || l1.RawCursor() != l2.RawCursor() || l1.Cursor() != l2.Cursor() {
				w.Violate(hx.Violation{Key: key, Class: "lexer-position-after-ParseFromLexer", Detail: map[string]any{"parseable_root_peek": fmt.Sprintf("%#v raw=%d", *l1.Peek(), l1.RawCursor()), "struct_root_peek": fmt.Sprintf("%#v raw=%d", *l2.Peek(), l2.RawCursor())}})
				continue
			}
			w.DistinctS("pr" + in)
		}
	}
	// deep nesting: Trace must change nothing, however deep the grammar recursion goes
	u := &g.Prod{Name: "U0", UnionSlot: 0, Members: []*g.Prod{nil}}
	s := gfam.AssignOwn("R", g.Alt(g.Seq(g.Lit("a"), g.Sub(-1, u), g.Lit("b")), gfam.CapMark(g.Lit(";"))))
	u.Members = []*g.Prod{s}
	tc := g.TypeCache{}
	rv := reflect.New(tc.GoType(s)).Elem().Interface()
	p, err := participle.Build[any](participle.Lexer(st), participle.Elide("Space"), participle.Union[any](rv), participle.Union[g.U0](rv))
	if err != nil {
		w.Violate(hx.Violation{Key: "deep build", Class: "build-failed", Detail: map[string]any{"e": err.Error()}})
		return
	}
	for m := 1; m <= 96; m++ {
		for _, tail := range []string{"", "x"} {
			in := strings.Repeat("a ", m) + ";" + strings.Repeat(" b", m) + tail
			w.Count("evaluations", 1)
			a := capture(func() (*any, error) { return p.ParseString("f", in) })
			b := capture(func() (*any, error) { return p.ParseString("f", in, participle.Trace(io.Discard)) })
			if a != b {
				w.Violate(hx.Violation{Key: fmt.Sprintf("deep-trace :: nesting=%d tail=%q", m, tail), Class: "entry-points-disagree:ParseString+Trace", Detail: map[string]any{"without": a.String()[:min(300, len(a.String()))], "with_trace": b.String()[:min(300, len(b.String()))]}})
				break
			}
		}
	}
}

func min(a, b int) int {
	if a < b {
		return a
	}
	return b
}

func plan(c *hx.Ctx) *hx.Plan {
	js := jobs(c.Quick())
	maxLen := 4
	if c.Quick() {
		maxLen = 3
	}
	return &hx.Plan{
		N: len(js) + 1,
		Job: func(w *hx.Worker, i int) {
			if i == len(js) {
				runSpecial(w)
				return
			}
			runJob(w, js[i], maxLen, "")
		},
		Describe: func(i int) string {
			if i == len(js) {
				return "special"
			}
			return fmt.Sprintf("lexer=%s opts=%s grammar#%d", js[i].k.name, js[i].os.name, js[i].gi)
		},
		Rule:   "parsers over {text/scanner, stateful, generated (by the repository's CLI at check time), and the stateful lexer behind three recording Definition wrappers implementing only Lex / +LexString / +LexBytes} x option sets {plain, Elide, Elide+Upper, Elide+Unquote, Elide+Map with a failing mapper} x 10 grammars x lookahead {1,3} x every input up to the length bound over a 10-byte alphabet (incl. unlexable bytes, unterminated strings, comments) x filename {\"\", \"f\"} x AllowTrailing: ParseString, Parse(reader), ParseBytes, ParseFromLexer over the parser's own token stream, and the Trace variants must return identical ASTs and identical errors (text, type, position); the tokens pulled from the definition are identical for every entry point and equal Parser.Lex; Lex/LexString/LexBytes of each definition agree; after ParseFromLexer with trailing input allowed the caller's lexer peeks the first unconsumed token (from the reference semantics). Parse(reader) is also fed readers that are not at their beginning (strings.Reader after Seek, bytes.Reader after ReadByte), a bufio.Reader and a one-byte-at-a-time reader. Special cases: a root type that implements Parseable (lexer position after ParseFromLexer compared with the equivalent struct grammar on all inputs up to length 5) and recursion depth 1..96 with and without Trace",
		Bounds: map[string]any{"max_input_len": maxLen, "grammars": len(grammars()), "lexers": len(lexKinds()), "option_sets": len(optSets())},
		Assume: []string{"a Parse that panics identically through every entry point is not this property's violation (C06 judges panics)"},
	}
}

func replay(c *hx.Ctx, key string) []hx.Violation {
	w := hx.NewReplayWorker()
	if strings.HasPrefix(key, "parseable-root") || strings.HasPrefix(key, "deep-") {
		runSpecial(w)
		return w.Violations()
	}
	for _, j := range jobs(false) {
		desc := fmt.Sprintf("lexer=%s opts=%s lookahead=%d grammar=%s", j.k.name, j.os.name, j.lk, j.gr.Source())
		if strings.HasPrefix(key, desc+" :: ") {
			runJob(w, j, 4, key)
		}
	}
	return w.Violations()
}

func main() {
	hx.Main(&hx.Spec{Engine: "entryx", JobTimeout: 10 * time.Minute, Levels: map[string]string{"C15": "exploration"}, Plan: plan, Replay: replay})
}
