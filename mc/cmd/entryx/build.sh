#!/bin/bash
# Builds the C15 explorer; one lexer is generated with the repository's real `participle gen lexer`
# CLI from the current working tree so that "generated lexer" parsers are part of the space.
set -u
cd /verif/mc
REPO=${VERIF_REPO:-/repo}
BIN=${VERIF_BIN:-/verif/build/bin}
MODFLAG=${VERIF_MODFLAG:-}
mkdir -p /verif/build "$BIN" /verif/mc/gen/entrylex
exec 7>/verif/build/genentry.lock
flock 7
(cd "$REPO/cmd/participle" && go build -o "$BIN/participle-cli" .) || { echo "cannot build the CLI" >&2; exit 2; }
cat > /verif/mc/gen/entrylex/rules.json <<'EOJ'
{"Root":[{"name":"Ident","pattern":"[a-zA-Z]+"},{"name":"Int","pattern":"[0-9]+"},{"name":"Str","pattern":"\"[^\"]*\""},{"name":"Punct","pattern":";"},{"name":"Space","pattern":"[ \\n]+"},{"name":"Comment","pattern":"#[^\\n]*"}]}
EOJ
"$BIN/participle-cli" gen lexer --name Entry entrylex < /verif/mc/gen/entrylex/rules.json > /verif/mc/gen/entrylex/lexer.go || { echo "participle gen lexer failed" >&2; exit 2; }
go build $MODFLAG -o "$BIN/entryx" ./cmd/entryx || exit 2
