// convx: exhaustive cross products for numeric conversion (C17) and token mappers (C18).
package main

import (
	"errors"
	"fmt"
	"math"
	"reflect"
	"strconv"
	"strings"
	"time"
	"unicode/utf8"

	"github.com/alecthomas/participle/v2"
	"github.com/alecthomas/participle/v2/lexer"

	"verif/mc/internal/hx"
)

// ---------------------------------------------------------------- C17

type (
	NInt8    int8
	NInt16   int16
	NInt32   int32
	NInt64   int64
	NInt     int
	NUint8   uint8
	NUint16  uint16
	NUint32  uint32
	NUint64  uint64
	NUint    uint
	NFloat32 float32
	NFloat64 float64
)

type kindT struct {
	name  string
	plain reflect.Type
	named reflect.Type
	bits  int
	class byte // 'i' 'u' 'f'
}

var kinds = []kindT{
	{"int8", reflect.TypeOf(int8(0)), reflect.TypeOf(NInt8(0)), 8, 'i'},
	{"int16", reflect.TypeOf(int16(0)), reflect.TypeOf(NInt16(0)), 16, 'i'},
	{"int32", reflect.TypeOf(int32(0)), reflect.TypeOf(NInt32(0)), 32, 'i'},
	{"int64", reflect.TypeOf(int64(0)), reflect.TypeOf(NInt64(0)), 64, 'i'},
	{"int", reflect.TypeOf(int(0)), reflect.TypeOf(NInt(0)), strconv.IntSize, 'i'},
	{"uint8", reflect.TypeOf(uint8(0)), reflect.TypeOf(NUint8(0)), 8, 'u'},
	{"uint16", reflect.TypeOf(uint16(0)), reflect.TypeOf(NUint16(0)), 16, 'u'},
	{"uint32", reflect.TypeOf(uint32(0)), reflect.TypeOf(NUint32(0)), 32, 'u'},
	{"uint64", reflect.TypeOf(uint64(0)), reflect.TypeOf(NUint64(0)), 64, 'u'},
	{"uint", reflect.TypeOf(uint(0)), reflect.TypeOf(NUint(0)), strconv.IntSize, 'u'},
	{"float32", reflect.TypeOf(float32(0)), reflect.TypeOf(NFloat32(0)), 32, 'f'},
	{"float64", reflect.TypeOf(float64(0)), reflect.TypeOf(NFloat64(0)), 64, 'f'},
}

type variantT struct {
	name string
	mk   func(k kindT) reflect.Type
	elem func(k kindT) reflect.Type
	sl   bool
}

var variants = []variantT{
	{"plain", func(k kindT) reflect.Type { return k.plain }, func(k kindT) reflect.Type { return k.plain }, false},
	{"named", func(k kindT) reflect.Type { return k.named }, func(k kindT) reflect.Type { return k.named }, false},
	{"pointer", func(k kindT) reflect.Type { return reflect.PtrTo(k.plain) }, func(k kindT) reflect.Type { return k.plain }, false},
	{"pointer-named", func(k kindT) reflect.Type { return reflect.PtrTo(k.named) }, func(k kindT) reflect.Type { return k.named }, false},
	{"slice", func(k kindT) reflect.Type { return reflect.SliceOf(k.plain) }, func(k kindT) reflect.Type { return k.plain }, true},
	{"slice-named", func(k kindT) reflect.Type { return reflect.SliceOf(k.named) }, func(k kindT) reflect.Type { return k.named }, true},
}

var numLexer = lexer.MustSimple([]lexer.SimpleRule{{Name: "Num", Pattern: `[^\s-]\S*`}, {Name: "Minus", Pattern: `-`}, {Name: "Space", Pattern: `\s+`}})
var numLexerWhole = lexer.MustSimple([]lexer.SimpleRule{{Name: "Num", Pattern: `\S+`}, {Name: "Space", Pattern: `\s+`}})

type shapeT struct {
	name  string
	tag   string
	lex   *lexer.StatefulDefinition
	input func(texts []string) string // builds the input from one or two texts
	ntext int
	join  bool // scalar: texts joined; slice: each element
	each  bool // two separate captures into the field: each is converted on its own, a scalar keeps the last
}

var shapes = []shapeT{
	{"@Num", `@Num`, numLexerWhole, func(t []string) string { return t[0] }, 1, true, false},
	{"@Num after space", `@Num`, numLexerWhole, func(t []string) string { return "  " + t[0] }, 1, true, false},
	{`@~"," after space`, `@~","`, numLexerWhole, func(t []string) string { return " \n  " + t[0] }, 1, true, false},
	{`@("-" Num)`, `@("-" Num)`, numLexer, func(t []string) string { return "- " + t[0] }, 1, true, false},
	{"@(Num Num)", `@(Num Num)`, numLexerWhole, func(t []string) string { return t[0] + " " + t[1] }, 2, true, false},
	{"@Num*", `@Num*`, numLexerWhole, func(t []string) string { return t[0] + " " + t[1] }, 2, false, false},
	{"@Num @Num", `@Num @Num`, numLexerWhole, func(t []string) string { return t[0] + " " + t[1] }, 2, false, true},
}

func intTexts() []string {
	var out []string
	seen := map[string]bool{}
	add := func(s string) {
		if s != "" && !seen[s] && !strings.ContainsAny(s, " \t\n") {
			seen[s] = true
			out = append(out, s)
		}
	}
	for _, bits := range []uint{8, 16, 32, 64} {
		var vals []string
		maxS := map[uint]string{8: "127", 16: "32767", 32: "2147483647", 64: "9223372036854775807"}[bits]
		maxU := map[uint]string{8: "255", 16: "65535", 32: "4294967295", 64: "18446744073709551615"}[bits]
		minS := map[uint]string{8: "-128", 16: "-32768", 32: "-2147483648", 64: "-9223372036854775808"}[bits]
		vals = append(vals, maxS, decPlus(maxS, 1), decPlus(maxS, -1), maxU, decPlus(maxU, 1), decPlus(maxU, -1), minS, "-"+decPlus(minS[1:], 1), "-"+decPlus(minS[1:], -1))
		for _, v := range vals {
			add(v)
			add("+" + strings.TrimPrefix(v, "-"))
			// other bases
			neg := strings.HasPrefix(v, "-")
			abs := strings.TrimPrefix(v, "-")
			if u, err := strconv.ParseUint(abs, 10, 64); err == nil {
				sign := ""
				if neg {
					sign = "-"
				}
				add(sign + "0x" + strconv.FormatUint(u, 16))
				add(sign + "0X" + strings.ToUpper(strconv.FormatUint(u, 16)))
				add(sign + "0o" + strconv.FormatUint(u, 8))
				add(sign + "0" + strconv.FormatUint(u, 8))
				add(sign + "0b" + strconv.FormatUint(u, 2))
				if len(abs) > 3 {
					add(sign + abs[:len(abs)-3] + "_" + abs[len(abs)-3:])
				}
			} else {
				add("0x10000000000000000")
			}
		}
	}
	for _, s := range []string{"0", "1", "-1", "-0", "+0", "00", "007", "08", "0x", "0b2", "1_", "_1", "1__0", "0_1", "0x_1", "1e3", "1.0", ".5", "x", "1x", "٣", "１", "0x7F", "0XfF", "-0x80", "-0x81", "0b1111111", "0o200", "1e", "--1", "+-1"} {
		add(s)
	}
	return out
}

// decPlus adds d (±1) to a non-negative decimal string.
func decPlus(s string, d int) string {
	b := []byte(s)
	i := len(b) - 1
	if d > 0 {
		for i >= 0 {
			if b[i] < '9' {
				b[i]++
				return string(b)
			}
			b[i] = '0'
			i--
		}
		return "1" + string(b)
	}
	for i >= 0 {
		if b[i] > '0' {
			b[i]--
			break
		}
		b[i] = '9'
		i--
	}
	r := strings.TrimLeft(string(b), "0")
	if r == "" {
		r = "0"
	}
	return r
}

func floatTexts() []string {
	return []string{"0", "-0", "1", "-1", "3.4028234663852886e38", "3.4028235677973366e38", "3.4028235e38", "3.4028236e38", "1e39", "-1e39", "1.401298464324817e-45", "1e-46", "7e-46", "4.9e-324", "2e-324", "1e400", "-1e400", "1.7976931348623157e308", "1.7976931348623159e308", ".5", "5.", "1e", "1e+", "0x1p-2", "0x1.8p1", "0x1p", "1_0.5", "1_000", "0x_1p0", "Inf", "+Inf", "-Inf", "inf", "NaN", "nan", "infinity", "Infinity", "infin", "1.5e3", "1E3", "16777217", "9007199254740993", "0.1", "1e23", "x", "1x", "1.2.3", "0b1", "0o7", "٣"}
}

type outcome struct {
	ok   bool
	bits uint64 // canonical bits of the value (ints: value; floats: float64 bits of the stored value)
	nan  bool
}

func oracle(k kindT, text string) (outcome, error) {
	switch k.class {
	case 'i':
		n, err := strconv.ParseInt(text, 0, k.bits)
		if err != nil {
			return outcome{}, err
		}
		return outcome{ok: true, bits: uint64(n)}, nil
	case 'u':
		n, err := strconv.ParseUint(text, 0, k.bits)
		if err != nil {
			return outcome{}, err
		}
		return outcome{ok: true, bits: n}, nil
	default:
		f, err := strconv.ParseFloat(text, k.bits)
		if err != nil {
			return outcome{}, err
		}
		if k.bits == 32 {
			f = float64(float32(f))
		}
		return outcome{ok: true, bits: math.Float64bits(f), nan: math.IsNaN(f)}, nil
	}
}

func valueBits(v reflect.Value) (uint64, bool) {
	switch v.Kind() {
	case reflect.Int, reflect.Int8, reflect.Int16, reflect.Int32, reflect.Int64:
		return uint64(v.Int()), false
	case reflect.Uint, reflect.Uint8, reflect.Uint16, reflect.Uint32, reflect.Uint64:
		return v.Uint(), false
	case reflect.Float32, reflect.Float64:
		return math.Float64bits(v.Float()), math.IsNaN(v.Float())
	}
	return 0, false
}

type c17job struct {
	k  kindT
	v  variantT
	sh shapeT
}

func c17jobs() []c17job {
	var out []c17job
	for _, k := range kinds {
		for _, v := range variants {
			for _, sh := range shapes {
				if !sh.join && !v.sl && !sh.each {
					continue // (@Num)* into a scalar is not covered by the statement
				}
				out = append(out, c17job{k, v, sh})
			}
		}
	}
	return out
}

func runC17(w *hx.Worker, j c17job, only string) {
	ft := j.v.mk(j.k)
	st := reflect.StructOf([]reflect.StructField{{Name: "V", Type: ft, Tag: reflect.StructTag(j.sh.tag)}})
	var p *participle.Parser[any]
	var err error
	pan, msg := hx.Guard(func() {
		p, err = participle.Build[any](participle.Lexer(j.sh.lex), participle.Elide("Space"), participle.Union[any](reflect.New(st).Elem().Interface()))
	})
	desc := fmt.Sprintf("field=%s(%s) shape=%s", j.k.name, j.v.name, j.sh.name)
	if pan || err != nil {
		w.Violate(hx.Violation{Key: desc, Class: "build-failed", Detail: map[string]any{"error": fmt.Sprint(err), "panic": msg}})
		return
	}
	texts := intTexts()
	if j.k.class == 'f' {
		texts = append(floatTexts(), "127", "-128", "0x10", "1_0")
	} else {
		texts = append(texts, "1e3", "Inf", "NaN", "0x1p-2")
	}
	if j.sh.name == "@Num" {
		// every text over the characters numerals are made of, up to the tier's length bound
		texts = append(texts, exhTexts...)
	}
	seconds := []string{""}
	if j.sh.ntext == 2 {
		seconds = []string{"0", "7", "x", "999999999999999999999", "_1", "e1"}
	}
	for _, t1 := range texts {
		for _, t2 := range seconds {
			ts := []string{t1, t2}
			in := j.sh.input(ts)
			key := desc + " :: in=" + strconv.Quote(in)
			if only != "" && key != only {
				continue
			}
			w.Case(func() string { return key })
			w.Count("evaluations", 1)
			// what gets converted
			var pieces []string
			flat := piecesFlat(j, t1, t2)
			if j.v.sl || j.sh.each {
				pieces = flat // a slice takes each captured token as its own element; separate captures are converted one by one
			} else {
				pieces = []string{strings.Join(flat, "")} // a scalar joins the tokens of one capture first
			}
			// the lexer must produce the intended tokens (texts containing '-' at the start are re-lexed differently)
			toks, lerr := p.Lex("", strings.NewReader(in))
			if lerr != nil {
				w.Count("inputs_unlexable", 1)
				continue
			}
			var vals []string
			var ntoks []lexer.Token
			for _, t := range toks {
				if t.EOF() || t.Type == j.sh.lex.Symbols()["Space"] {
					continue
				}
				ntoks = append(ntoks, t)
				vals = append(vals, t.Value)
			}
			wantToks := j.sh.ntext
			if strings.HasPrefix(j.sh.tag, `@("-"`) {
				wantToks = 2
			}
			if len(vals) != wantToks || strings.Join(vals, "") != strings.Join(piecesFlat(j, t1, t2), "") {
				w.Count("inputs_lexed_differently_than_intended", 1)
				continue
			}
			var want []outcome
			var firstErr error
			first := ntoks[0] // the first token of the capture whose conversion fails
			for i, pc := range pieces {
				o, err := oracle(j.k, pc)
				if err != nil && firstErr == nil {
					firstErr = err
					if !j.sh.join {
						first = ntoks[i] // (@Num)* / @Num @Num: every capture is a capture of its own
					}
				}
				want = append(want, o)
			}
			var res *any
			var perr error
			pan, msg := hx.Guard(func() { res, perr = p.ParseString("", in) })
			if pan {
				w.Violate(hx.Violation{Key: key, Class: "panic", Detail: map[string]any{"panic": msg}})
				continue
			}
			if firstErr != nil {
				w.DistinctS("err:" + firstErr.Error()[:min(40, len(firstErr.Error()))])
				if perr == nil {
					w.Violate(hx.Violation{Key: key, Class: "invalid-number-accepted", Detail: map[string]any{"strconv": firstErr.Error(), "ast": fmt.Sprintf("%+v", deref(res))}})
					continue
				}
				pe, ok := perr.(participle.Error)
				if !ok {
					w.Violate(hx.Violation{Key: key, Class: "error-not-participle.Error", Detail: map[string]any{"error": perr.Error()}})
					continue
				}
				if pe.Position() != first.Pos {
					w.Violate(hx.Violation{Key: key, Class: "error-position", Detail: map[string]any{"error": perr.Error(), "position": fmt.Sprint(pe.Position()), "first_captured_token": fmt.Sprintf("%#v", first)}})
					continue
				}
				var ne *strconv.NumError
				if !errors.As(perr, &ne) {
					w.Violate(hx.Violation{Key: key, Class: "error-does-not-name-conversion", Detail: map[string]any{"error": perr.Error()}})
					continue
				}
				// nothing wrapped/truncated may be stored
				if res != nil && *res != nil {
					fv := reflect.ValueOf(*res).FieldByName("V")
					if j.v.sl && fv.Len() > 0 && firstErr != nil && len(pieces) == 1 {
						w.Violate(hx.Violation{Key: key, Class: "value-stored-despite-error", Detail: map[string]any{"value": fmt.Sprint(fv.Interface())}})
					}
					if !j.v.sl && !j.sh.each {
						x := fv
						for x.Kind() == reflect.Ptr && !x.IsNil() {
							x = x.Elem()
						}
						if x.Kind() != reflect.Ptr && !x.IsZero() {
							w.Violate(hx.Violation{Key: key, Class: "value-stored-despite-error", Detail: map[string]any{"value": fmt.Sprint(x.Interface())}})
						}
					}
				}
				continue
			}
			if perr != nil {
				w.Violate(hx.Violation{Key: key, Class: "valid-number-rejected", Detail: map[string]any{"error": perr.Error()}})
				continue
			}
			fv := reflect.ValueOf(*res).FieldByName("V")
			var got []reflect.Value
			if j.v.sl {
				for i := 0; i < fv.Len(); i++ {
					got = append(got, fv.Index(i))
				}
			} else {
				x := fv
				for x.Kind() == reflect.Ptr {
					if x.IsNil() {
						break
					}
					x = x.Elem()
				}
				got = []reflect.Value{x}
			}
			if j.sh.each && !j.v.sl && len(want) > 0 {
				want = want[len(want)-1:]
			}
			if len(got) != len(want) {
				w.Violate(hx.Violation{Key: key, Class: "wrong-element-count", Detail: map[string]any{"got": fmt.Sprint(fv.Interface()), "want_elements": len(want)}})
				continue
			}
			bad := false
			for i := range got {
				if got[i].Kind() == reflect.Ptr {
					bad = true
					break
				}
				if got[i].Type() != j.v.elem(j.k) {
					bad = true
					break
				}
				b, nan := valueBits(got[i])
				if nan != want[i].nan || (!nan && b != want[i].bits) {
					bad = true
				}
			}
			if bad {
				w.Violate(hx.Violation{Key: key, Class: "wrong-value", Detail: map[string]any{"got": fmt.Sprint(fv.Interface()), "pieces": pieces}})
				continue
			}
			w.DistinctS(fmt.Sprintf("%s:%v", j.k.name, want))
			if len(in) > 4 {
				w.Sample(map[string]any{"field": desc, "input": in, "stored": fmt.Sprint(deref(res))})
			}
		}
	}
}

// runC17Nested: the numeric field sits in a nested production reached through a repetition / an
// optional group, under finite and unlimited lookahead: if any captured text is not a valid number the
// parse must fail (no default value may be stored silently); otherwise the values are exact.
func runC17Nested(w *hx.Worker, k kindT) {
	sub := reflect.StructOf([]reflect.StructField{{Name: "V", Type: k.plain, Tag: `@Num`}})
	type shape struct {
		name string
		mk   func() reflect.Type
		get  func(v reflect.Value) []reflect.Value
	}
	shapes := []shape{
		{"Items []*Sub `@@+`", func() reflect.Type {
			return reflect.StructOf([]reflect.StructField{{Name: "Items", Type: reflect.SliceOf(reflect.PtrTo(sub)), Tag: `@@+`}})
		}, func(v reflect.Value) (out []reflect.Value) {
			f := v.FieldByName("Items")
			for i := 0; i < f.Len(); i++ {
				out = append(out, f.Index(i).Elem().FieldByName("V"))
			}
			return
		}},
		{"A *Sub `@@`; B *Sub `@@?`", func() reflect.Type {
			return reflect.StructOf([]reflect.StructField{{Name: "A", Type: reflect.PtrTo(sub), Tag: `@@`}, {Name: "B", Type: reflect.PtrTo(sub), Tag: `@@?`}})
		}, func(v reflect.Value) (out []reflect.Value) {
			for _, n := range []string{"A", "B"} {
				if f := v.FieldByName(n); !f.IsNil() {
					out = append(out, f.Elem().FieldByName("V"))
				}
			}
			return
		}},
	}
	texts := []string{"0", "1", "127", "128", "255", "256", "-1", "-129", "65536", "1e39", "1.5", "x", "0x7f", "99999999999999999999"}
	for _, sh := range shapes {
		rt := sh.mk()
		for _, la := range []int{1, 2, -1, -5} {
			p, err := participle.Build[any](participle.Lexer(numLexerWhole), participle.Elide("Space"), participle.UseLookahead(la), participle.Union[any](reflect.New(rt).Elem().Interface()))
			if err != nil {
				w.Violate(hx.Violation{Key: fmt.Sprintf("nested field=%s shape=%s", k.name, sh.name), Class: "build-failed", Detail: map[string]any{"err": err.Error()}})
				continue
			}
			for _, t1 := range texts {
				for _, t2 := range texts {
					in := t1 + " " + t2
					key := fmt.Sprintf("nested field=%s shape=%s lookahead=%d :: in=%q", k.name, sh.name, la, in)
					w.Count("evaluations", 1)
					o1, e1 := oracle(k, t1)
					o2, e2 := oracle(k, t2)
					var res *any
					var perr error
					pan, msg := hx.Guard(func() { res, perr = p.ParseString("", in) })
					if pan {
						w.Violate(hx.Violation{Key: key, Class: "panic", Detail: map[string]any{"panic": msg}})
						continue
					}
					if e1 != nil || e2 != nil {
						if perr == nil {
							w.Violate(hx.Violation{Key: key, Class: "invalid-number-accepted", Detail: map[string]any{"ast": g2s(res), "strconv": fmt.Sprint(e1, e2)}})
						}
						w.DistinctS("nerr" + in)
						continue
					}
					if perr != nil {
						w.Violate(hx.Violation{Key: key, Class: "valid-number-rejected", Detail: map[string]any{"error": perr.Error()}})
						continue
					}
					got := sh.get(reflect.ValueOf(*res))
					want := []outcome{o1, o2}
					bad := len(got) != 2
					for i := 0; !bad && i < 2; i++ {
						b, nan := valueBits(got[i])
						if nan != want[i].nan || (!nan && b != want[i].bits) {
							bad = true
						}
					}
					if bad {
						w.Violate(hx.Violation{Key: key, Class: "wrong-value", Detail: map[string]any{"ast": g2s(res)}})
						continue
					}
					w.DistinctS("nok" + k.name + in)
				}
			}
		}
	}
}

// runC17Tail: the numeric field's production ends with an optional group that starts to match and is then
// given up (so a syntax error deeper in the input has been seen and discarded) before the conversion runs:
// the error reported is still the conversion's, at the captured token.
func runC17Tail(w *hx.Worker, k kindT) {
	sub := reflect.StructOf([]reflect.StructField{{Name: "V", Type: k.plain, Tag: `@Num`}, {Name: "U", Type: reflect.TypeOf(""), Tag: `( @"px" "!" )?`}})
	rt := reflect.StructOf([]reflect.StructField{{Name: "S", Type: reflect.PtrTo(sub), Tag: `@@`}, {Name: "Tail", Type: reflect.TypeOf(""), Tag: `@"px"?`}})
	texts := []string{"0", "1", "127", "128", "255", "256", "-1", "-129", "65536", "1e39", "1.5", "x", "0x7f", "99999999999999999999", "017", "08"}
	for _, la := range []int{1, 2, 3, -1} {
		p, err := participle.Build[any](participle.Lexer(numLexerWhole), participle.Elide("Space"), participle.UseLookahead(la), participle.Union[any](reflect.New(rt).Elem().Interface()))
		if err != nil {
			w.Violate(hx.Violation{Key: fmt.Sprintf("tail field=%s", k.name), Class: "build-failed", Detail: map[string]any{"err": err.Error()}})
			return
		}
		for _, t1 := range texts {
			for _, tail := range []string{"", " px", " px !"} {
				in := "  " + t1 + tail
				key := fmt.Sprintf("tail field=%s lookahead=%d :: in=%q", k.name, la, in)
				w.Count("evaluations", 1)
				o1, e1 := oracle(k, t1)
				var res *any
				var perr error
				pan, msg := hx.Guard(func() { res, perr = p.ParseString("", in) })
				if pan {
					w.Violate(hx.Violation{Key: key, Class: "panic", Detail: map[string]any{"panic": msg}})
					continue
				}
				if e1 != nil {
					var ne *strconv.NumError
					pe, isPE := perr.(participle.Error)
					switch {
					case perr == nil:
						w.Violate(hx.Violation{Key: key, Class: "invalid-number-accepted", Detail: map[string]any{"ast": g2s(res), "strconv": e1.Error()}})
					case !errors.As(perr, &ne):
						w.Violate(hx.Violation{Key: key, Class: "error-does-not-name-conversion", Detail: map[string]any{"error": perr.Error()}})
					case !isPE || pe.Position().Offset != 2:
						w.Violate(hx.Violation{Key: key, Class: "error-position", Detail: map[string]any{"error": perr.Error(), "captured_token_at_offset": 2}})
					}
					w.DistinctS("terr" + k.name + t1)
					continue
				}
				if perr != nil {
					w.Violate(hx.Violation{Key: key, Class: "valid-number-rejected", Detail: map[string]any{"error": perr.Error()}})
					continue
				}
				v := reflect.ValueOf(*res).FieldByName("S").Elem().FieldByName("V")
				if b, nan := valueBits(v); nan != o1.nan || (!nan && b != o1.bits) {
					w.Violate(hx.Violation{Key: key, Class: "wrong-value", Detail: map[string]any{"ast": g2s(res)}})
					continue
				}
				w.DistinctS("tok" + k.name + in)
			}
		}
	}
}

// runC17Again: the production with the numeric field is tried at the SAME position by several alternatives
// (Range = Small ":" Small | Small | any token). A conversion that failed in one alternative must not leave
// anything behind for the next one: a number that does not fit ends up as text in the last alternative,
// never as a zero / partial value in an earlier one.
func runC17Again(w *hx.Worker, k kindT) {
	small := reflect.StructOf([]reflect.StructField{{Name: "V", Type: k.plain, Tag: `@Num`}})
	rng := reflect.StructOf([]reflect.StructField{{Name: "A", Type: small, Tag: `@@ ":"`}, {Name: "B", Type: small, Tag: `@@`}})
	rt := reflect.StructOf([]reflect.StructField{{Name: "R", Type: reflect.PtrTo(rng), Tag: `@@`}, {Name: "S", Type: reflect.PtrTo(small), Tag: `| @@`}, {Name: "T", Type: reflect.TypeOf(""), Tag: `| @Num`}})
	texts := []string{"7", "0", "-1", "127", "128", "255", "256", "-300", "70000", "1e39", "1.5", "x", "99999999999999999999"}
	for _, la := range []int{2, 3, participle.MaxLookahead, -1} {
		p, err := participle.Build[any](participle.Lexer(numLexerWhole), participle.Elide("Space"), participle.UseLookahead(la), participle.Union[any](reflect.New(rt).Elem().Interface()))
		if err != nil {
			w.Violate(hx.Violation{Key: fmt.Sprintf("again field=%s", k.name), Class: "build-failed", Detail: map[string]any{"err": err.Error()}})
			return
		}
		run := func(in string, want string) {
			key := fmt.Sprintf("again field=%s lookahead=%d :: in=%q", k.name, la, in)
			w.Count("evaluations", 1)
			var res *any
			var perr error
			pan, msg := hx.Guard(func() { res, perr = p.ParseString("", in) })
			got := ""
			switch {
			case pan:
				got = "PANIC " + msg
			case perr != nil:
				got = "error"
			default:
				v := reflect.ValueOf(*res)
				num := func(x reflect.Value) string {
					b, nan := valueBits(x.FieldByName("V"))
					return fmt.Sprint(b, nan)
				}
				if r := v.FieldByName("R"); !r.IsNil() {
					got += "R(" + num(r.Elem().FieldByName("A")) + "," + num(r.Elem().FieldByName("B")) + ")"
				}
				if sv := v.FieldByName("S"); !sv.IsNil() {
					got += "S(" + num(sv.Elem()) + ")"
				}
				if t := v.FieldByName("T").String(); t != "" {
					got += "T(" + t + ")"
				}
			}
			if got != want {
				w.Violate(hx.Violation{Key: key, Class: "wrong-value", Detail: map[string]any{"got": got, "expected": want, "ast": g2s(res), "error": fmt.Sprint(perr)}})
				return
			}
			w.DistinctS("again" + k.name + want)
		}
		ex := func(t string) (string, bool) {
			o, err := oracle(k, t)
			return fmt.Sprint(o.bits, o.nan), err == nil
		}
		for _, t1 := range texts {
			if n1, ok := ex(t1); ok {
				run(t1, "S("+n1+")")
			} else {
				run(t1, "T("+t1+")")
			}
			for _, t2 := range texts {
				n1, ok1 := ex(t1)
				n2, ok2 := ex(t2)
				if ok1 && ok2 {
					run(t1+" : "+t2, "R("+n1+","+n2+")")
				} else {
					run(t1+" : "+t2, "error")
				}
			}
		}
	}
}

// two distinct named numeric types that print the same (reflect.Type.String() is not an identity): local
// types of two functions. Each converts with its OWN width, whichever was used first in the process.
func levelNarrow() reflect.Type {
	type Level int8
	return reflect.TypeOf(Level(0))
}

func levelWide() reflect.Type {
	type Level int64
	return reflect.TypeOf(Level(0))
}

func levelFloat() reflect.Type {
	type Level float32
	return reflect.TypeOf(Level(0))
}

func runC17SameName(w *hx.Worker) {
	types := []struct {
		t reflect.Type
		k kindT
	}{}
	for _, k := range kinds {
		switch k.name {
		case "int8":
			types = append(types, struct {
				t reflect.Type
				k kindT
			}{levelNarrow(), k})
		case "int64":
			types = append(types, struct {
				t reflect.Type
				k kindT
			}{levelWide(), k})
		case "float32":
			types = append(types, struct {
				t reflect.Type
				k kindT
			}{levelFloat(), k})
		}
	}
	texts := []string{"7", "-5", "127", "128", "300", "70000000000", "1.5", "1e39", "x"}
	for round := 0; round < 2; round++ {
		for _, ty := range types {
			st := reflect.StructOf([]reflect.StructField{{Name: "V", Type: ty.t, Tag: `@Num`}})
			p, err := participle.Build[any](participle.Lexer(numLexerWhole), participle.Elide("Space"), participle.Union[any](reflect.New(st).Elem().Interface()))
			if err != nil {
				w.Violate(hx.Violation{Key: "same-name " + ty.t.String(), Class: "build-failed", Detail: map[string]any{"err": err.Error()}})
				continue
			}
			for _, tx := range texts {
				key := fmt.Sprintf("same-name field=%s (kind %s, one of several distinct types called %s) round=%d :: in=%q", ty.t.String(), ty.t.Kind(), ty.t.String(), round, tx)
				w.Count("evaluations", 1)
				o, oerr := oracle(ty.k, tx)
				var res *any
				var perr error
				pan, msg := hx.Guard(func() { res, perr = p.ParseString("", tx) })
				switch {
				case pan:
					w.Violate(hx.Violation{Key: key, Class: "panic", Detail: map[string]any{"panic": msg}})
				case oerr != nil && perr == nil:
					w.Violate(hx.Violation{Key: key, Class: "invalid-number-accepted", Detail: map[string]any{"ast": g2s(res), "strconv": oerr.Error()}})
				case oerr == nil && perr != nil:
					w.Violate(hx.Violation{Key: key, Class: "valid-number-rejected", Detail: map[string]any{"error": perr.Error()}})
				case oerr == nil:
					if b, nan := valueBits(reflect.ValueOf(*res).FieldByName("V")); nan != o.nan || (!nan && b != o.bits) {
						w.Violate(hx.Violation{Key: key, Class: "wrong-value", Detail: map[string]any{"ast": g2s(res)}})
					}
				}
				w.DistinctS("same" + ty.t.Kind().String() + tx)
			}
		}
	}
}

// runC17Empty: a captured token whose text is empty (EOF) is a text like any other: "" is not a number.
func runC17Empty(w *hx.Worker, k kindT) {
	for _, v := range variants {
		st := reflect.StructOf([]reflect.StructField{{Name: "V", Type: v.mk(k), Tag: `"x"? @EOF`}})
		p, err := participle.Build[any](participle.Lexer(numLexerWhole), participle.Elide("Space"), participle.Union[any](reflect.New(st).Elem().Interface()))
		if err != nil {
			continue // a field type that cannot take @EOF
		}
		for _, in := range []string{"", "x", "  "} {
			key := fmt.Sprintf("empty field=%s(%s) :: in=%q", k.name, v.name, in)
			w.Count("evaluations", 1)
			var res *any
			var perr error
			pan, msg := hx.Guard(func() { res, perr = p.ParseString("", in) })
			var ne *strconv.NumError
			switch {
			case pan:
				w.Violate(hx.Violation{Key: key, Class: "panic", Detail: map[string]any{"panic": msg}})
			case perr == nil:
				w.Violate(hx.Violation{Key: key, Class: "invalid-number-accepted", Detail: map[string]any{"ast": g2s(res), "strconv": "the captured text is empty"}})
			case !errors.As(perr, &ne):
				w.Violate(hx.Violation{Key: key, Class: "error-does-not-name-conversion", Detail: map[string]any{"error": perr.Error()}})
			}
			w.DistinctS("empty" + k.name + v.name)
		}
	}
}

func g2s(p *any) string {
	if p == nil || *p == nil {
		return "<nil>"
	}
	return fmt.Sprintf("%+v", *p)
}

func piecesFlat(j c17job, t1, t2 string) []string {
	if strings.HasPrefix(j.sh.tag, `@("-"`) {
		return []string{"-", t1}
	}
	if j.sh.ntext == 2 {
		return []string{t1, t2}
	}
	return []string{t1}
}

func deref(p *any) any {
	if p == nil {
		return nil
	}
	return *p
}

func min(a, b int) int {
	if a < b {
		return a
	}
	return b
}

// ---------------------------------------------------------------- C18

type G18 struct {
	V string `@(String | RawString | Char)`
}

var strLexer = lexer.MustSimple([]lexer.SimpleRule{
	{Name: "String", Pattern: `"(\\(?s:.)|[^"\\])*"`},
	{Name: "RawString", Pattern: "`[^`]*`"},
	{Name: "Char", Pattern: `'(\\(?s:.)|[^'\\])*'`},
	{Name: "Space", Pattern: `\s+`},
})

var c18alpha = []string{"a", `"`, "'", "`", `\`, "\n", "\t", "é", "日", "\x00", "\xff", "­"}

func strs(alpha []string, maxLen int) []string {
	out := []string{""}
	prev := []string{""}
	for l := 1; l <= maxLen; l++ {
		var next []string
		for _, p := range prev {
			for _, c := range alpha {
				next = append(next, p+c)
			}
		}
		out = append(out, next...)
		prev = next
	}
	return out
}

type c18ctx struct {
	parsers map[string]*participle.Parser[G18]
}

func newC18() (*c18ctx, error) {
	c := &c18ctx{parsers: map[string]*participle.Parser[G18]{}}
	var err error
	mk := func(name string, opts ...participle.Option) {
		if err != nil {
			return
		}
		var p *participle.Parser[G18]
		p, err = participle.Build[G18](opts...)
		c.parsers[name] = p
	}
	mk("scanner", participle.Unquote("String", "RawString", "Char"))
	mk("stateful", participle.Lexer(strLexer), participle.Elide("Space"), participle.Unquote("String", "RawString", "Char"))
	mk("scanner-default", participle.Unquote())
	mk("scanner-none")
	return c, err
}

func runC18Strings(w *hx.Worker, c *c18ctx, ss []string) {
	for _, s := range ss {
		type q struct{ style, text string }
		qs := []q{{"Quote", strconv.Quote(s)}, {"QuoteToASCII", strconv.QuoteToASCII(s)}}
		if strconv.CanBackquote(s) {
			qs = append(qs, q{"backquote", "`" + s + "`"})
		}
		if utf8.RuneCountInString(s) == 1 && utf8.ValidString(s) {
			r, _ := utf8.DecodeRuneInString(s)
			qs = append(qs, q{"QuoteRune", strconv.QuoteRune(r)})
		}
		for _, qq := range qs {
			for _, pn := range []string{"scanner", "stateful"} {
				key := fmt.Sprintf("unquote lexer=%s style=%s s=%q", pn, qq.style, s)
				w.Case(func() string { return key })
				w.Count("evaluations", 1)
				var g *G18
				var err error
				pan, msg := hx.Guard(func() { g, err = c.parsers[pn].ParseString("", qq.text) })
				if pan {
					w.Violate(hx.Violation{Key: key, Class: "panic", Detail: map[string]any{"panic": msg, "text": qq.text}})
					continue
				}
				if err != nil {
					w.Violate(hx.Violation{Key: key, Class: "quoted-literal-rejected", Detail: map[string]any{"error": err.Error(), "text": qq.text}})
					continue
				}
				if g.V != s {
					w.Violate(hx.Violation{Key: key, Class: "unquote-wrong-value", Detail: map[string]any{"text": qq.text, "got": fmt.Sprintf("%q", g.V), "want": fmt.Sprintf("%q", s)}})
					continue
				}
				w.DistinctS(qq.style + g.V)
				if len(s) >= 3 {
					w.Sample(map[string]any{"s": s, "style": qq.style, "text": qq.text, "lexer": pn})
				}
			}
		}
	}
}

func runC18Soups(w *hx.Worker, c *c18ctx, bodies []string) {
	for _, body := range bodies {
		for _, quote := range []string{`"`, "'"} {
			text := quote + body + quote
			for _, pn := range []string{"scanner", "stateful"} {
				key := fmt.Sprintf("soup lexer=%s text=%q", pn, text)
				w.Count("evaluations", 1)
				p := c.parsers[pn]
				// what the raw lexer makes of it (no mapper): must be exactly one string-ish token
				raw, lerr := c.parsers["scanner-none"].Lexer().Lex("", strings.NewReader(text))
				if pn == "stateful" {
					raw, lerr = strLexer.LexString("", text)
				}
				if lerr != nil {
					continue
				}
				toks, lerr := lexer.ConsumeAll(raw)
				if lerr != nil || len(toks) != 2 || toks[0].Value != text {
					w.Count("soups_not_a_single_token", 1)
					continue
				}
				// oracle: Go quoting rules
				var want string
				var werr error
				if quote == `"` {
					want, werr = strconv.Unquote(text)
				} else {
					// single-quoted "strings": Go's rules for the body, with ' as the quote
					want, werr = unquoteSingle(body)
				}
				var g *G18
				var err error
				pan, msg := hx.Guard(func() { g, err = p.ParseString("", text) })
				if pan {
					w.Violate(hx.Violation{Key: key, Class: "panic", Detail: map[string]any{"panic": msg}})
					continue
				}
				if werr != nil {
					// the same parser meeting the same invalid literal again must reject it again
					var g2 *G18
					var err2 error
					hx.Guard(func() { g2, err2 = p.ParseString("", text) })
					if err != nil && err2 == nil {
						w.Violate(hx.Violation{Key: key, Class: "invalid-escape-accepted-on-second-parse", Detail: map[string]any{"got": fmt.Sprintf("%q", g2.V), "first_error": err.Error()}})
						continue
					}
					if err == nil {
						w.Violate(hx.Violation{Key: key, Class: "invalid-escape-accepted", Detail: map[string]any{"got": fmt.Sprintf("%q", g.V), "strconv": werr.Error()}})
						continue
					}
					pe, ok := err.(participle.Error)
					if !ok || pe.Position() != toks[0].Pos {
						w.Violate(hx.Violation{Key: key, Class: "invalid-escape-error-not-located", Detail: map[string]any{"error": err.Error()}})
					}
					w.DistinctS("err")
					continue
				}
				if err != nil {
					w.Violate(hx.Violation{Key: key, Class: "valid-literal-rejected", Detail: map[string]any{"error": err.Error(), "want": fmt.Sprintf("%q", want)}})
					continue
				}
				if g.V != want {
					w.Violate(hx.Violation{Key: key, Class: "unquote-wrong-value", Detail: map[string]any{"got": fmt.Sprintf("%q", g.V), "want": fmt.Sprintf("%q", want)}})
					continue
				}
				w.DistinctS("ok" + want)
			}
		}
	}
}

func unquoteSingle(body string) (string, error) {
	var sb strings.Builder
	for body != "" {
		r, mb, tail, err := strconv.UnquoteChar(body, '\'')
		if err != nil {
			return "", err
		}
		if !mb && r >= utf8.RuneSelf {
			sb.WriteByte(byte(r))
		} else {
			sb.WriteRune(r)
		}
		body = tail
	}
	return sb.String(), nil
}

var abLexer = lexer.MustSimple([]lexer.SimpleRule{{Name: "A", Pattern: `[aé]+`}, {Name: "B", Pattern: `b+`}, {Name: "S", Pattern: ` +`}})

// abVariants: the same three token types numbered differently: behind 61 and 126 rules that never match
// (types around -64 and -128), and declared in another order. The SAME option values are used to build a
// parser for each of them in turn.
var abVariants = func() []struct {
	name string
	def  *lexer.StatefulDefinition
} {
	filler := func(n int) []lexer.SimpleRule {
		var out []lexer.SimpleRule
		for i := 0; i < n; i++ {
			out = append(out, lexer.SimpleRule{Name: fmt.Sprintf("F%d", i), Pattern: fmt.Sprintf("#f%d#", i)})
		}
		return out
	}
	abs := []lexer.SimpleRule{{Name: "A", Pattern: `[aé]+`}, {Name: "B", Pattern: `b+`}, {Name: "S", Pattern: ` +`}}
	return []struct {
		name string
		def  *lexer.StatefulDefinition
	}{
		{"A,B,S", abLexer},
		{"61 rules,A,B,S", lexer.MustSimple(append(filler(61), abs...))},
		{"S,B,A", lexer.MustSimple([]lexer.SimpleRule{abs[2], abs[1], abs[0]})},
		{"126 rules,B,A,S", lexer.MustSimple(append(filler(126), abs[1], abs[0], abs[2]))},
	}
}()

type GAB struct {
	V []string `@(A | B)*`
}

func runC18Mappers(w *hx.Worker, inputs []string) {
	types := []string{"A", "B", "S"}
	for mask := 0; mask < 8; mask++ {
		var sel []string
		for i, t := range types {
			if mask&(1<<i) != 0 {
				sel = append(sel, t)
			}
		}
		selected := func(sym map[string]lexer.TokenType, tt lexer.TokenType) bool {
			if len(sel) == 0 {
				return true
			}
			for _, s := range sel {
				if sym[s] == tt {
					return true
				}
			}
			return false
		}
		var calls []lexer.Token
		counting := func(t lexer.Token) (lexer.Token, error) {
			calls = append(calls, t)
			t.Value = "<" + t.Value + ">"
			return t, nil
		}
		// one value of each option, used for every lexer variant in turn
		optElide, optUpper, optMap := participle.Elide("S"), participle.Upper(sel...), participle.Map(counting, sel...)
		for _, variant := range abVariants {
			abLexer := variant.def
			plain, err0 := participle.Build[GAB](participle.Lexer(abLexer), optElide)
			upper, err1 := participle.Build[GAB](participle.Lexer(abLexer), optElide, optUpper)
			mapped, err2 := participle.Build[GAB](participle.Lexer(abLexer), optElide, optMap)
			if err0 != nil || err1 != nil || err2 != nil {
				w.Violate(hx.Violation{Key: fmt.Sprintf("mappers lexer=%s sel=%v", variant.name, sel), Class: "build-failed", Detail: map[string]any{"e": fmt.Sprint(err0, err1, err2)}})
				continue
			}
			sym := abLexer.Symbols()
			for _, in := range inputs {
				key := fmt.Sprintf("mappers lexer=%s sel=%v in=%q", variant.name, sel, in)
				w.Count("evaluations", 1)
				base, e0 := plain.Lex("", strings.NewReader(in))
				up, e1 := upper.Lex("", strings.NewReader(in))
				calls = nil
				mp, e2 := mapped.Lex("", strings.NewReader(in))
				lexCalls := calls
				if e0 != nil || e1 != nil || e2 != nil {
					if (e0 == nil) != (e1 == nil) || (e0 == nil) != (e2 == nil) {
						w.Violate(hx.Violation{Key: key, Class: "mapper-changes-lexability", Detail: map[string]any{"e": fmt.Sprint(e0, e1, e2)}})
					}
					continue
				}
				bad := ""
				if len(up) != len(base) || len(mp) != len(base) {
					bad = "token count changed"
				}
				var wantCalls []lexer.Token
				for i := 0; bad == "" && i < len(base); i++ {
					b := base[i]
					if up[i].Type != b.Type || up[i].Pos != b.Pos || mp[i].Type != b.Type || mp[i].Pos != b.Pos {
						bad = fmt.Sprintf("type/position of token %d changed", i)
					}
					wantU, wantM := b.Value, b.Value
					if !b.EOF() && selected(sym, b.Type) {
						wantU = strings.ToUpper(b.Value)
						wantM = "<" + b.Value + ">"
						wantCalls = append(wantCalls, b)
					}
					if !b.EOF() && (up[i].Value != wantU || mp[i].Value != wantM) {
						bad = fmt.Sprintf("token %d: upper %q (want %q), mapped %q (want %q)", i, up[i].Value, wantU, mp[i].Value, wantM)
					}
				}
				if bad == "" {
					var got []lexer.Token
					for _, c := range lexCalls {
						if !c.EOF() {
							got = append(got, c)
						}
					}
					if fmt.Sprint(got) != fmt.Sprint(wantCalls) || len(got) != len(wantCalls) {
						bad = fmt.Sprintf("custom mapper saw %v, expected exactly %v", got, wantCalls)
					} else {
						for i := range got {
							if got[i] != wantCalls[i] {
								bad = fmt.Sprintf("custom mapper call %d saw %#v, expected %#v", i, got[i], wantCalls[i])
							}
						}
					}
				}
				if bad == "" {
					// a parse with elision: the mapper still sees every selected token once, before elision
					calls = nil
					g, perr := mapped.ParseString("", in)
					var got []lexer.Token
					for _, c := range calls {
						if !c.EOF() {
							got = append(got, c)
						}
					}
					if len(got) != len(wantCalls) {
						bad = fmt.Sprintf("during Parse the custom mapper saw %d tokens, expected %d", len(got), len(wantCalls))
					}
					if perr == nil && bad == "" {
						var wantV []string
						for _, b := range base {
							if b.EOF() || b.Type == sym["S"] {
								continue
							}
							if selected(sym, b.Type) {
								wantV = append(wantV, "<"+b.Value+">")
							} else {
								wantV = append(wantV, b.Value)
							}
						}
						if fmt.Sprint(g.V) != fmt.Sprint(wantV) {
							bad = fmt.Sprintf("parsed values %v, expected %v", g.V, wantV)
						}
					}
				}
				if bad == "" {
					// the bytes entry point runs the same mappers
					g1, e1 := upper.ParseString("", in)
					g2, e2 := upper.ParseBytes("", []byte(in))
					if (e1 == nil) != (e2 == nil) || (e1 == nil && fmt.Sprint(g1.V) != fmt.Sprint(g2.V)) {
						bad = fmt.Sprintf("ParseBytes gives %v (%v), ParseString %v (%v)", g2, e2, g1, e1)
					}
				}
				if bad == "" && len(in) >= 2 {
					// two lexers handed out by the parser's (mapping) definition, read alternately, are two lexers
					other := in[1:] + in[:1]
					la, ea := upper.Lexer().Lex("", strings.NewReader(in))
					lb, eb := upper.Lexer().Lex("", strings.NewReader(other))
					if ea == nil && eb == nil {
						var sa []string
						for k := 0; k < len(in)+2; k++ {
							if t, err := la.Next(); err == nil && !t.EOF() {
								sa = append(sa, t.Value)
							}
							_, _ = lb.Next()
						}
						var wa []string
						for _, t := range up {
							if !t.EOF() {
								wa = append(wa, t.Value)
							}
						}
						if fmt.Sprint(sa) != fmt.Sprint(wa) {
							bad = fmt.Sprintf("a lexer of the mapped definition read alternately with a second one over %q yields %v, alone %v", other, sa, wa)
						}
					}
				}
				if bad != "" {
					w.Violate(hx.Violation{Key: key, Class: "mapper", Detail: map[string]any{"what": bad}})
					continue
				}
				w.DistinctS(fmt.Sprintf("%v%v", sel, mp))
			}
		}
	}
}

// runC18Combos: k untyped Map() options together with typed mappers on two different token types, in
// every registration order of the typed ones: every token gets every untyped mapper exactly once and
// only the typed mappers of its own type.
func runC18Combos(w *hx.Worker, inputs []string) {
	sym := abLexer.Symbols()
	for k := 0; k <= 9; k++ {
		for order := 0; order < 3; order++ {
			var opts []participle.Option
			opts = append(opts, participle.Lexer(abLexer), participle.Elide("S"))
			typed := []participle.Option{
				participle.Upper("A"),
				participle.Map(func(t lexer.Token) (lexer.Token, error) { t.Value = "<" + t.Value + ">"; return t, nil }, "B"),
			}
			untyped := func(i int) participle.Option {
				return participle.Map(func(t lexer.Token) (lexer.Token, error) {
					if !t.EOF() {
						t.Value += fmt.Sprintf("%d", i)
					}
					return t, nil
				})
			}
			switch order {
			case 0: // typed first
				opts = append(opts, typed...)
				for i := 0; i < k; i++ {
					opts = append(opts, untyped(i))
				}
			case 1: // untyped first
				for i := 0; i < k; i++ {
					opts = append(opts, untyped(i))
				}
				opts = append(opts, typed...)
			default: // interleaved
				opts = append(opts, typed[0])
				for i := 0; i < k; i++ {
					opts = append(opts, untyped(i))
				}
				opts = append(opts, typed[1])
			}
			p, err := participle.Build[GAB](opts...)
			if err != nil {
				w.Violate(hx.Violation{Key: fmt.Sprintf("mapper-combo untyped=%d order=%d", k, order), Class: "build-failed", Detail: map[string]any{"err": err.Error()}})
				continue
			}
			plain, _ := participle.Build[GAB](participle.Lexer(abLexer), participle.Elide("S"))
			for _, in := range inputs {
				key := fmt.Sprintf("mapper-combo untyped=%d order=%d in=%q", k, order, in)
				w.Count("evaluations", 1)
				base, e0 := plain.Lex("", strings.NewReader(in))
				got, e1 := p.Lex("", strings.NewReader(in))
				if e0 != nil || e1 != nil {
					continue
				}
				bad := ""
				if len(got) != len(base) {
					bad = "token count changed"
				}
				for i := 0; bad == "" && i < len(base); i++ {
					b, t := base[i], got[i]
					if t.Type != b.Type || t.Pos != b.Pos {
						bad = fmt.Sprintf("type/position of token %d changed", i)
						break
					}
					if b.EOF() {
						continue
					}
					v := t.Value
					// every untyped marker exactly once
					for m := 0; m < k; m++ {
						if strings.Count(v, fmt.Sprint(m)) != 1 {
							bad = fmt.Sprintf("token %d %q: untyped mapper #%d applied %d times", i, v, m, strings.Count(v, fmt.Sprint(m)))
						}
						v = strings.Replace(v, fmt.Sprint(m), "", 1)
					}
					wantV := b.Value
					switch b.Type {
					case sym["A"]:
						wantV = strings.ToUpper(b.Value)
					case sym["B"]:
						v = strings.Replace(strings.Replace(v, "<", "", 1), ">", "", 1)
						if strings.Count(t.Value, "<") != 1 || strings.Count(t.Value, ">") != 1 {
							bad = fmt.Sprintf("token %d %q: the mapper selected for type B was not applied exactly once", i, t.Value)
						}
					}
					if bad == "" && v != wantV {
						bad = fmt.Sprintf("token %d of type %d: %q, expected base value %q (a mapper of another type was applied, or its own was not)", i, b.Type, t.Value, wantV)
					}
				}
				if bad != "" {
					w.Violate(hx.Violation{Key: key, Class: "mapper-combination", Detail: map[string]any{"what": bad}})
					continue
				}
				w.DistinctS(fmt.Sprintf("combo%d/%d%v", k, order, got))
			}
		}
	}
}

// runC18SameType: several options select the SAME token type (and one of them a second type as well): every
// selected mapper is applied exactly once to every token of the type, whatever the order of the options.
func runC18SameType(w *hx.Worker, inputs []string) {
	sym := abLexer.Symbols()
	wrap := func(l, r string) participle.Mapper {
		return func(t lexer.Token) (lexer.Token, error) { t.Value = l + t.Value + r; return t, nil }
	}
	mk := func(name string) participle.Option {
		switch name {
		case "Upper(A)":
			return participle.Upper("A")
		case "Map<>(A)":
			return participle.Map(wrap("<", ">"), "A")
		case "Map{}(A,B)":
			return participle.Map(wrap("{", "}"), "A", "B")
		case "Map[](B,B)":
			return participle.Map(wrap("[", "]"), "B", "B") // a type named twice in one selection is selected once: each token is seen exactly once
		default:
			return participle.Map(wrap("(", ")"))
		}
	}
	names := []string{"Upper(A)", "Map<>(A)", "Map{}(A,B)", "Map[](B,B)", "Map()(all)"}
	var perms [][]int
	var rec func(cur []int, used int)
	rec = func(cur []int, used int) {
		if len(cur) == len(names) {
			perms = append(perms, append([]int{}, cur...))
			return
		}
		for i := range names {
			if used&(1<<i) == 0 {
				rec(append(cur, i), used|1<<i)
			}
		}
	}
	rec(nil, 0)
	plain, _ := participle.Build[GAB](participle.Lexer(abLexer), participle.Elide("S"))
	for _, perm := range perms {
		opts := []participle.Option{participle.Lexer(abLexer), participle.Elide("S")}
		order := ""
		for _, i := range perm {
			opts = append(opts, mk(names[i]))
			order += names[i] + " "
		}
		p, err := participle.Build[GAB](opts...)
		if err != nil {
			w.Violate(hx.Violation{Key: "mapper-same-type order=" + order, Class: "build-failed", Detail: map[string]any{"err": err.Error()}})
			continue
		}
		for _, in := range inputs {
			key := fmt.Sprintf("mapper-same-type order=%s in=%q", order, in)
			w.Count("evaluations", 1)
			base, e0 := plain.Lex("", strings.NewReader(in))
			got, e1 := p.Lex("", strings.NewReader(in))
			if e0 != nil || e1 != nil || len(got) != len(base) {
				if (e0 == nil) != (e1 == nil) || (e0 == nil && len(got) != len(base)) {
					w.Violate(hx.Violation{Key: key, Class: "mapper-combination", Detail: map[string]any{"what": fmt.Sprint("lexability / token count changed: ", e0, e1)}})
				}
				continue
			}
			bad := ""
			for i, b := range base {
				if b.EOF() {
					continue
				}
				v := got[i].Value
				want := map[string]int{"(": 1, ")": 1}
				letters := b.Value
				switch b.Type {
				case sym["A"]:
					want["<"], want[">"], want["{"], want["}"] = 1, 1, 1, 1
					letters = strings.ToUpper(b.Value)
				case sym["B"]:
					want["{"], want["}"], want["["], want["]"] = 1, 1, 1, 1
				}
				for _, m := range []string{"(", ")", "<", ">", "{", "}", "[", "]"} {
					if strings.Count(v, m) != want[m] {
						bad = fmt.Sprintf("token %d %q (base %q): marker %q occurs %d times, expected %d", i, v, b.Value, m, strings.Count(v, m), want[m])
					}
				}
				if core := strings.Trim(v, "()<>{}[]"); bad == "" && core != letters {
					bad = fmt.Sprintf("token %d %q: text %q, expected %q", i, v, core, letters)
				}
			}
			if bad != "" {
				w.Violate(hx.Violation{Key: key, Class: "mapper-combination", Detail: map[string]any{"what": bad}})
				continue
			}
			w.DistinctS("same" + order + fmt.Sprint(got))
		}
	}
}

// runC18Stacked: a parser built on another parser's Lexer() sees the tokens AS THAT PARSER'S MAPPERS LEFT
// THEM and applies its own on top: inner first, then outer; positions and types untouched.
func runC18Stacked(w *hx.Worker, inputs []string) {
	wrap := func(l, r string) participle.Mapper {
		return func(t lexer.Token) (lexer.Token, error) { t.Value = l + t.Value + r; return t, nil }
	}
	first, err1 := participle.Build[GAB](participle.Lexer(abLexer), participle.Elide("S"), participle.Map(wrap("<", ">"), "A"), participle.Upper("B"))
	if err1 != nil {
		w.Violate(hx.Violation{Key: "mapper-stacked", Class: "build-failed", Detail: map[string]any{"err": err1.Error()}})
		return
	}
	second, err2 := participle.Build[GAB](participle.Lexer(first.Lexer()), participle.Elide("S"), participle.Upper("A"), participle.Map(wrap("{", "}"), "A", "B"))
	if err2 != nil {
		w.Violate(hx.Violation{Key: "mapper-stacked", Class: "build-failed", Detail: map[string]any{"err": err2.Error()}})
		return
	}
	plain, _ := participle.Build[GAB](participle.Lexer(abLexer), participle.Elide("S"))
	sym := abLexer.Symbols()
	for _, in := range inputs {
		key := fmt.Sprintf("mapper-stacked :: second parser built on first.Lexer() :: in=%q", in)
		w.Count("evaluations", 1)
		base, e0 := plain.Lex("", strings.NewReader(in))
		got, e1 := second.Lex("", strings.NewReader(in))
		if e0 != nil || e1 != nil {
			continue
		}
		bad := ""
		if len(got) != len(base) {
			bad = "token count changed"
		}
		for i := 0; bad == "" && i < len(base); i++ {
			b := base[i]
			want := b.Value
			switch {
			case b.EOF():
			case b.Type == sym["A"]:
				want = "{" + strings.ToUpper("<"+b.Value+">") + "}" // first: <a>; second: Upper, then {}
			case b.Type == sym["B"]:
				want = "{" + strings.ToUpper(b.Value) + "}"
			}
			if got[i].Value != want || got[i].Type != b.Type || got[i].Pos != b.Pos {
				bad = fmt.Sprintf("token %d: %#v, expected value %q with the type and position of %#v", i, got[i], want, b)
			}
		}
		if bad != "" {
			w.Violate(hx.Violation{Key: key, Class: "mapper-combination", Detail: map[string]any{"what": bad}})
			continue
		}
		w.DistinctS("stacked" + fmt.Sprint(got))
	}
}

// ---------------------------------------------------------------- plumbing

func chunks(ss []string, n int) [][]string {
	var out [][]string
	for i := 0; i < len(ss); i += n {
		e := i + n
		if e > len(ss) {
			e = len(ss)
		}
		out = append(out, ss[i:e])
	}
	return out
}

// exhTexts: all strings over the characters of Go numerals up to the tier's bound (set by plan/replay)
var exhTexts []string

func setExhTexts(quick bool) int {
	n := 5
	if quick {
		n = 3
	}
	exhTexts = nil
	seen := map[string]bool{}
	for _, t := range intTexts() {
		seen[t] = true
	}
	for _, t := range floatTexts() {
		seen[t] = true
	}
	for _, t := range strs([]string{"0", "1", "9", "-", "+", "_", "x", "e", ".", "p"}, n) {
		if !seen[t] {
			exhTexts = append(exhTexts, t)
		}
	}
	return n
}

func plan(c *hx.Ctx) *hx.Plan {
	if c.Prop == "C17" {
		js := c17jobs()
		exhLen := setExhTexts(c.Quick())
		return &hx.Plan{
			N: len(js) + len(kinds),
			Job: func(w *hx.Worker, i int) {
				if i >= len(js) {
					runC17Nested(w, kinds[i-len(js)])
					runC17Tail(w, kinds[i-len(js)])
					runC17Again(w, kinds[i-len(js)])
					runC17Empty(w, kinds[i-len(js)])
					if i == len(js) {
						runC17SameName(w)
					}
					return
				}
				runC17(w, js[i], "")
			},
			Describe: func(i int) string {
				if i >= len(js) {
					return "nested " + kinds[i-len(js)].name
				}
				return fmt.Sprintf("field=%s(%s) shape=%s", js[i].k.name, js[i].v.name, js[i].sh.name)
			},
			Rule:   "cross product: 12 numeric kinds x {plain, named, pointer, pointer-to-named, slice, slice of named} x capture shapes {@Num, @Num after elided space, @(\"-\" Num), @(Num Num), @Num* into slices} x numeric texts (boundary values min-1..max+1 of every width in decimal/hex/octal/legacy-octal/binary, signs, underscores, float boundaries of float32/float64, subnormals, Inf/NaN words, hex floats, junk; for the shape @Num additionally EVERY text over {0,1,9,-,+,_,x,e,.,p} up to max_exhaustive_text_len). Oracle: strconv.ParseInt/ParseUint/ParseFloat with the field's bit size. evaluations = parses; distinct_nontrivial = distinct (kind, stored values) / error texts",
			Bounds: map[string]any{"kinds": len(kinds), "variants": len(variants), "shapes": len(shapes), "int_texts": len(intTexts()), "float_texts": len(floatTexts()), "max_exhaustive_text_len": exhLen, "exhaustive_texts": len(exhTexts)},
			Assume: []string{"strconv is the oracle named by the property"},
		}
	}
	// C18
	ml, soupLen, abLen := 5, 5, 6
	if c.Quick() {
		ml, soupLen, abLen = 3, 4, 5
	}
	ss := strs(c18alpha, ml)
	soups := strs([]string{`\`, "x", "u", "0", "7", "8", "q", `"`, "a", "'"}, soupLen)
	abIns := strs([]string{"a", "b", " ", "é"}, abLen)
	cs := chunks(ss, 500)
	sc := chunks(soups, 1000)
	n1, n2 := len(cs), len(cs)+len(sc)
	comboIns := strs([]string{"a", "b", " "}, 4)
	return &hx.Plan{
		N: n2 + 2,
		Job: func(w *hx.Worker, i int) {
			ctx, _ := w.Local("c18", func() any {
				c, err := newC18()
				if err != nil {
					panic(err)
				}
				return c
			}).(*c18ctx)
			switch {
			case i < n1:
				runC18Strings(w, ctx, cs[i])
			case i < n2:
				runC18Soups(w, ctx, sc[i-n1])
			case i == n2:
				runC18Mappers(w, abIns)
			default:
				runC18Combos(w, comboIns)
				runC18SameType(w, strs([]string{"a", "b", " ", "é"}, 3))
				runC18Stacked(w, strs([]string{"a", "b", " ", "é"}, 4))
			}
		},
		Describe: func(i int) string { return fmt.Sprintf("chunk %d", i) },
		Rule:     "Unquote: every string s up to the length bound over {a, \", ', `, \\, newline, tab, é, 日, NUL, 0xff, soft hyphen} x quoting styles {strconv.Quote, QuoteToASCII, back-quotes when CanBackquote, QuoteRune for one rune} x lexers {text/scanner, stateful}: parsing the quoted text must capture exactly s. Escape soups: every body up to length 4 over {\\,x,u,0,7,8,q,\",a,'} between double and single quotes that lexes as one token: value equals strconv's, or a located error. Upper / custom Map: every subset of the token types of a 3-type lexer (in 4 numberings of its types: plain, behind 61 and 126 other rules, reordered; one set of option values re-used for all of them) x every input over {a,b,space,é} up to the length bound: unselected tokens and all positions unchanged, mapper sees each selected non-EOF token exactly once in order, before elision",
		Bounds:   map[string]any{"max_string_len": ml, "soup_len": soupLen, "strings": len(ss), "soups": len(soups), "mapper_inputs": len(abIns)},
		Assume:   []string{"strconv.Quote/Unquote define Go quoting"},
	}
}

func replay(c *hx.Ctx, key string) []hx.Violation {
	w := hx.NewReplayWorker()
	if c.Prop == "C17" && (strings.HasPrefix(key, "nested ") || strings.HasPrefix(key, "tail ") || strings.HasPrefix(key, "again ") || strings.HasPrefix(key, "same-name ") || strings.HasPrefix(key, "empty ")) {
		for _, k := range kinds {
			runC17Nested(w, k)
			runC17Tail(w, k)
			runC17Again(w, k)
			runC17Empty(w, k)
		}
		runC17SameName(w)
		var out []hx.Violation
		for _, v := range w.Violations() {
			if v.Key == key {
				out = append(out, v)
			}
		}
		return out
	}
	if c.Prop == "C17" {
		setExhTexts(false)
		for _, j := range c17jobs() {
			if strings.HasPrefix(key, fmt.Sprintf("field=%s(%s) shape=%s ::", j.k.name, j.v.name, j.sh.name)) {
				runC17(w, j, key)
			}
		}
		return w.Violations()
	}
	ctx, err := newC18()
	if err != nil {
		return []hx.Violation{{Key: key, Class: "build-failed"}}
	}
	// re-run the whole (cheap) space and keep the matching key
	runC18Strings(w, ctx, strs(c18alpha, 5))
	runC18Soups(w, ctx, strs([]string{`\`, "x", "u", "0", "7", "8", "q", `"`, "a", "'"}, 5))
	runC18Mappers(w, strs([]string{"a", "b", " ", "é"}, 6))
	runC18Combos(w, strs([]string{"a", "b", " "}, 4))
	runC18SameType(w, strs([]string{"a", "b", " ", "é"}, 3))
	runC18Stacked(w, strs([]string{"a", "b", " ", "é"}, 4))
	var out []hx.Violation
	for _, v := range w.Violations() {
		if v.Key == key {
			out = append(out, v)
		}
	}
	return out
}

func main() {
	hx.Main(&hx.Spec{Engine: "convx", JobTimeout: 60 * time.Second, Levels: map[string]string{"C17": "exploration", "C18": "exploration"}, Plan: plan, Replay: replay})
}
