#!/bin/bash
# Builds the C09 explorer: instruments the CURRENT sources (cmd/instr), generates one lexer with the
# repository's CLI, builds the explorer with -overlay and the race pass with -race (uninstrumented).
set -u
cd /verif/mc
REPO=${VERIF_REPO:-/repo}
BIN=${VERIF_BIN:-/verif/build/bin}
MODFLAG=${VERIF_MODFLAG:-}
TAG=$(echo "$REPO" | md5sum | cut -c1-8)
OV=/verif/build/tmp/instr-$TAG
mkdir -p "$BIN" /verif/mc/gen/schedlex
exec 6>/verif/build/gensched.lock
flock 6
rm -rf "$OV"
go build $MODFLAG -o "$BIN/instr" ./cmd/instr || exit 2
"$BIN/instr" "$REPO" "$OV" || exit 2
(cd "$REPO/cmd/participle" && go build -o "$BIN/participle-cli" .) || { echo "cannot build the CLI" >&2; exit 2; }
go build $MODFLAG -o "$BIN/schedrules" ./cmd/schedrules || exit 2
"$BIN/schedrules" | "$BIN/participle-cli" gen lexer --name Quotes schedlex > /verif/mc/gen/schedlex/lexer.go || { echo "participle gen lexer failed" >&2; exit 2; }
go build $MODFLAG -overlay "$OV/overlay.json" -o "$BIN/schedx" ./cmd/schedx || exit 2
go build $MODFLAG -race -o "$BIN/schedx-race" ./cmd/schedxrace || exit 2
