// schedx: concurrent and repeated use of parsers and lexer definitions (property C09).
//
// Built with `go build -overlay` against instrumented copies of participle's current sources (see
// cmd/instr): scheduling points at every function entry, loop head and sync operation. A hand
// written cooperative scheduler (overlay/vsched) enumerates every schedule up to a preemption bound
// (iterative context bounding); sequential call histories and call-granularity interleavings of
// several live lexers are explored breadth first; data races are looked for in a separate
// free-running -race pass (cooperative hand-offs are happens-before edges and would blind the detector).
package main

import (
	"encoding/json"
	"fmt"
	"os"
	"os/exec"
	"path/filepath"
	"strings"
	"time"

	"github.com/alecthomas/participle/v2/lexer"
	"github.com/alecthomas/participle/v2/vsched"

	"verif/mc/gen/schedlex"
	"verif/mc/internal/hx"
	"verif/mc/internal/scen"
)

type explorer struct {
	late     []func() string // renderers of retained results (re-rendered after all threads have finished)
	shard    int
	nshards  int
	sc       scen.Scenario
	expected []string
	bound    int
	onlySync bool
	w        *hx.Worker
	execs    int64
	maxExecs int64
	deadline time.Time
	capped   bool
	pointsLo int
	pointsHi int
	outcomes map[string]bool
}

func (e *explorer) run(prefix []int) *vsched.Sched {
	shared := e.sc.New()
	bodies := make([]func() string, len(e.sc.Calls))
	e.late = make([]func() string, len(e.sc.Calls))
	for i, c := range e.sc.Calls {
		i, c := i, c
		bodies[i] = func() string {
			if c.R != nil {
				r := c.R(shared)
				e.late[i] = r
				return r()
			}
			return c.F(shared)
		}
	}
	return vsched.Run(bodies, prefix, 200000, e.onlySync)
}

func schedKey(name string, choices []int, onlySync bool) string {
	var sb strings.Builder
	for _, c := range choices {
		fmt.Fprintf(&sb, "%d.", c)
	}
	return fmt.Sprintf("schedule scenario=%q onlysync=%v choices=%s", name, onlySync, sb.String())
}

func (e *explorer) check(x *vsched.Sched, choices []int) {
	e.execs++
	e.w.Count("evaluations", 1)
	e.w.Count("schedules", 1)
	e.w.Count("transitions", int64(len(x.Points)))
	if n := len(x.Points); e.pointsLo == 0 || n < e.pointsLo {
		e.pointsLo = n
	}
	if n := len(x.Points); n > e.pointsHi {
		e.pointsHi = n
	}
	res := x.Results()
	e.outcomes[strings.Join(res, "\x00")] = true
	if x.Err != "" {
		e.w.Violate(hx.Violation{Key: schedKey(e.sc.Name, choices, e.onlySync), Class: "scheduler:" + strings.Fields(x.Err)[0], Detail: map[string]any{"error": x.Err}})
		return
	}
	// results the callers kept must still read the same after every other call has finished
	for i, l := range e.late {
		if l != nil && res[i] == e.expected[i] {
			if again := l(); again != res[i] {
				res[i] = again + "   [changed after the call returned; at return time it was correct]"
			}
		}
	}
	for i, r := range res {
		if r != e.expected[i] {
			// replay the same schedule twice: identical observations are required before it is believed
			y1 := e.run(choices)
			y2 := e.run(choices)
			if strings.Join(y1.Results(), "\x00") != strings.Join(res, "\x00") || strings.Join(y2.Results(), "\x00") != strings.Join(res, "\x00") {
				e.w.Violate(hx.Violation{Key: schedKey(e.sc.Name, choices, e.onlySync), Class: "nondeterministic-replay", Detail: map[string]any{"first": res, "second": y1.Results(), "third": y2.Results()}})
				return
			}
			e.w.Violate(hx.Violation{Key: schedKey(e.sc.Name, choices, e.onlySync), Class: "concurrent-result-differs:" + e.sc.Calls[i].Name,
				Detail: map[string]any{"thread": i, "call": e.sc.Calls[i].Name, "got": r, "alone_on_fresh_instance": e.expected[i], "schedule_points": len(x.Points)}})
			return
		}
	}
}

func choicesOf(x *vsched.Sched) []int {
	out := make([]int, len(x.Points))
	for i, p := range x.Points {
		out[i] = p.Chosen
	}
	return out
}

// explore: DFS by prefix replay with a preemption bound (iterative context bounding).
// level 0 = root, level 1 = the executions that differ from the root only in which thread starts
// (free choices at the very first point); the subtrees below levels 0 and 1 are distributed over the
// shards of the job by the index of the point they branch at.
func (e *explorer) explore(prefix []int, level int) {
	if (e.maxExecs > 0 && e.execs >= e.maxExecs) || (!e.deadline.IsZero() && time.Now().After(e.deadline)) {
		e.capped = true // a budget, never an oracle: what was explored below the cap is reported, the cap is reported
		return
	}
	x := e.run(prefix)
	ch := choicesOf(x)
	if level >= 2 || e.nshards <= 1 || e.shard == 0 {
		e.check(x, ch) // root and level-1 executions are run by every shard but judged and counted once
	}
	if x.Err != "" {
		return
	}
	pre := 0 // preemptions among the first i choices
	for i := 0; i < len(x.Points); i++ {
		p := x.Points[i]
		if i >= len(prefix) {
			for alt := 1; alt < len(p.Enabled); alt++ {
				c := pre
				if p.RunningEnabled {
					c++
				}
				if e.bound >= 0 && c > e.bound {
					continue
				}
				next := 2
				if level == 0 && i == 0 {
					next = 1
				} else if level < 2 && e.nshards > 1 && i%e.nshards != e.shard {
					continue // another shard explores the subtree that branches here
				}
				np := append(append([]int{}, ch[:i]...), alt)
				e.explore(np, next)
				if e.capped {
					return
				}
			}
		}
		if p.RunningEnabled && p.Chosen != 0 {
			pre++
		}
	}
}

func expectedOf(sc scen.Scenario) []string {
	out := make([]string, len(sc.Calls))
	for i, c := range sc.Calls {
		out[i] = c.F(sc.New()) // fresh instance, used alone, no scheduler active
	}
	return out
}

type jobT struct {
	shard    int
	nshards  int
	kind     string
	sc       int
	bound    int
	onlySync bool
	idx      int
}

func runSchedule(w *hx.Worker, j jobT, maxExecs int64) {
	sc := scen.Scenarios()[j.sc]
	e := &explorer{sc: sc, expected: expectedOf(sc), bound: j.bound, onlySync: j.onlySync, w: w, maxExecs: maxExecs, outcomes: map[string]bool{}, shard: j.shard, nshards: j.nshards}
	if maxExecs > 60000 {
		e.deadline = time.Now().Add(90 * time.Second) // thorough tier: scenarios whose executions are long (Build under the scheduler) stop here
	}
	e.explore(nil, 0)
	mode := fmt.Sprintf("bound=%d", j.bound)
	if j.nshards > 1 {
		mode += fmt.Sprintf(" shard %d/%d", j.shard, j.nshards)
	}
	if j.onlySync {
		mode = "sync-ops-only,unbounded"
	}
	w.Note(fmt.Sprintf("scenario %q %s", sc.Name, mode), map[string]any{"executions": e.execs, "points_per_execution_min": e.pointsLo, "points_per_execution_max": e.pointsHi, "distinct_outcome_tuples": len(e.outcomes), "capped": e.capped})
	if e.capped {
		w.Count("scenarios_capped", 1)
	}
	for o := range e.outcomes {
		w.DistinctS(sc.Name + o)
	}
	w.Sample(map[string]any{"scenario": sc.Name, "mode": mode, "threads": len(sc.Calls), "executions": e.execs, "points_per_execution": []int{e.pointsLo, e.pointsHi}})
}

// histories: BFS over all call sequences up to a depth on ONE shared parser.
func runHistories(w *hx.Worker, depth int, first int) {
	calls := scen.HistoryCalls()
	fresh := make([]string, len(calls))
	for i, c := range calls {
		fresh[i] = c.F(scen.NewParser())
	}
	var rec func(seq []int)
	rec = func(seq []int) {
		if len(seq) > 0 {
			p := scen.NewParser()
			w.Count("evaluations", 1)
			w.Count("histories", 1)
			var names []string
			var first func() string
			for k, ci := range seq {
				var r string
				if calls[ci].R != nil {
					l := calls[ci].R(p)
					r = l()
					if k == 0 {
						first = l
					}
				} else {
					r = calls[ci].F(p)
				}
				names = append(names, calls[ci].Name)
				w.Count("transitions", 1)
				if k == len(seq)-1 && r != fresh[ci] {
					w.Violate(hx.Violation{Key: fmt.Sprintf("history %s", strings.Join(names, " ; ")), Class: "result-depends-on-earlier-calls:" + calls[ci].Name,
						Detail: map[string]any{"got": r, "alone_on_fresh_instance": fresh[ci]}})
				}
			}
			if first != nil && len(seq) > 1 {
				if again := first(); again != fresh[seq[0]] {
					w.Violate(hx.Violation{Key: fmt.Sprintf("history %s", strings.Join(names, " ; ")), Class: "earlier-result-changed-by-later-calls:" + calls[seq[0]].Name,
						Detail: map[string]any{"now": again, "when_returned": fresh[seq[0]]}})
				}
			}
			w.DistinctS("h" + strings.Join(names, ";"))
		}
		if len(seq) == depth {
			return
		}
		for ci := range calls {
			rec(append(append([]int{}, seq...), ci))
		}
	}
	rec([]int{first})
}

type lexPair struct {
	name   string
	def    func() lexer.Definition
	inputs []string
}

func lexPairs() []lexPair {
	return []lexPair{
		{"runtime heredoc (back-reference cache)", func() lexer.Definition { return scen.NewDef() }, []string{"a=<<X h X;", "b=<<Y w Y;", "c=<<X o X", "k=<-XY b X;", "a=<<X x", "q=<=x X"}},
		{"text/scanner (default definition)", func() lexer.Definition { return lexer.TextScannerLexer }, []string{"alpha beta", "x 12 \"s\"", "// c\ny", "z"}},
		{"runtime alias (NUL-joined cache keys)", func() lexer.Definition { return lexer.MustStateful(scen.AliasRules()) }, []string{"x\x00yx\x00y!", "tx\x00yxx\x00y!", "x\x00yx!"}},
		{"runtime \\0 back-reference", func() lexer.Definition { return lexer.MustStateful(scen.ZeroRefRules()) }, []string{"''i's'' x", "'a' b", "'''q'''", "w"}},
		{"runtime quotes", func() lexer.Definition { return lexer.MustStateful(scen.QuoteRules()) }, []string{`"it's" x`, `'say "hi"' y`, `"a (b 'c') d"`, `w`}},
		{"generated quotes", func() lexer.Definition { return schedlex.QuotesLexer }, []string{`"it's" x`, `'say "hi"' y`, `"a (b 'c') d"`, `w`}},
	}
}

func drain(lx lexer.Lexer, n int) (out []string) {
	for i := 0; i < n; i++ {
		t, err := lx.Next()
		if err != nil {
			out = append(out, "ERR "+err.Error())
			return
		}
		out = append(out, fmt.Sprintf("%d:%q@%d", t.Type, t.Value, t.Pos.Offset))
		if t.EOF() {
			return
		}
	}
	return
}

// interleavings: every interleaving (at Next() granularity) of two or three live lexers of one
// shared definition; every lexer's stream must equal its stream on a fresh definition used alone.
// ebnf histories: every sequence (depth <= 4) of calls on the package-level ebnf parser, including a
// caller that edits the tree it got; every result equals the result of the same call made first.
func runEbnfHistories(w *hx.Worker, depth int) {
	var calls []scen.Call
	for _, sc := range scen.Scenarios() {
		if strings.HasPrefix(sc.Name, "S3") {
			calls = sc.Calls
		}
	}
	fresh := make([]string, len(calls))
	for i, c := range calls {
		fresh[i] = c.F(nil)
	}
	var rec func(seq []int)
	rec = func(seq []int) {
		if len(seq) > 0 {
			w.Count("evaluations", 1)
			w.Count("histories", 1)
			var names []string
			for k, ci := range seq {
				r := calls[ci].F(nil)
				names = append(names, calls[ci].Name)
				if k == len(seq)-1 && r != fresh[ci] {
					w.Violate(hx.Violation{Key: "history " + strings.Join(names, " ; "), Class: "result-depends-on-earlier-calls:" + calls[ci].Name, Detail: map[string]any{"got": r, "first_time": fresh[ci]}})
				}
			}
			w.DistinctS("eh" + strings.Join(names, ";"))
		}
		if len(seq) == depth {
			return
		}
		for ci := range calls {
			rec(append(append([]int{}, seq...), ci))
		}
	}
	rec(nil)
}

func runInterleavings(w *hx.Worker, pi int) {
	lp := lexPairs()[pi]
	alone := map[string][]string{}
	for _, in := range lp.inputs {
		d := lp.def()
		lx, _ := d.Lex("f", strings.NewReader(in))
		alone[in] = drain(lx, 1000)
	}
	combos := [][]string{}
	for _, a := range lp.inputs {
		for _, b := range lp.inputs {
			combos = append(combos, []string{a, b})
		}
	}
	// three live lexers: on prefixes of the inputs so that the full interleaving space stays enumerable
	short := func(s string) string {
		if len(s) > 5 {
			return s[:5]
		}
		return s
	}
	tri := []string{short(lp.inputs[0]), short(lp.inputs[1]), short(lp.inputs[2])}
	for _, in := range tri {
		if _, ok := alone[in]; !ok {
			d := lp.def()
			lx, _ := d.Lex("f", strings.NewReader(in))
			alone[in] = drain(lx, 1000)
		}
	}
	combos = append(combos, tri)
	for _, ins := range combos {
		lens := make([]int, len(ins))
		total := 0
		for i, in := range ins {
			lens[i] = len(alone[in])
			total += lens[i]
		}
		// enumerate interleavings as sequences over lexer indexes
		var rec func(seq []int, used []int)
		count := 0
		capped := false
		rec = func(seq []int, used []int) {
			if len(seq) == total {
				count++
				w.Count("evaluations", 1)
				w.Count("interleavings", 1)
				def := lp.def()
				lxs := make([]lexer.Lexer, len(ins))
				for i, in := range ins {
					lxs[i], _ = def.Lex("f", strings.NewReader(in))
				}
				got := make([][]string, len(ins))
				for _, li := range seq {
					got[li] = append(got[li], drain(lxs[li], 1)...)
					w.Count("transitions", 1)
				}
				for i, in := range ins {
					if strings.Join(got[i], "|") != strings.Join(alone[in], "|") {
						w.Violate(hx.Violation{Key: fmt.Sprintf("interleaving definition=%q inputs=%q order=%v", lp.name, ins, seq), Class: "lexer-stream-differs-when-interleaved",
							Detail: map[string]any{"lexer": i, "got": got[i], "alone": alone[in]}})
						return
					}
				}
				return
			}
			if count > 60000 {
				capped = true
				return
			}
			for li := range ins {
				if used[li] < lens[li] {
					used[li]++
					rec(append(seq, li), used)
					used[li]--
				}
			}
		}
		rec(nil, make([]int, len(ins)))
		if capped {
			w.Count("interleaving_combinations_capped_at_60000", 1)
		}
		// sequential reuse: one after the other, both orders
		w.DistinctS(lp.name + strings.Join(ins, "|"))
	}
	w.Sample(map[string]any{"definition": lp.name, "inputs": lp.inputs})
}

func runRacePass(w *hx.Worker, rounds int) {
	bin := filepath.Join(binDir(), "schedx-race")
	cmd := exec.Command(bin, fmt.Sprint(rounds))
	cmd.Env = append(os.Environ(), "GORACE=halt_on_error=1 exitcode=66")
	out, err := cmd.CombinedOutput()
	w.Count("evaluations", 1)
	w.Count("race_pass_rounds", int64(rounds))
	if err != nil {
		s := string(out)
		cls := "race-pass-failed"
		if strings.Contains(s, "DATA RACE") {
			cls = "data-race"
		}
		if len(s) > 6000 {
			s = s[:6000]
		}
		w.Violate(hx.Violation{Key: "race pass (free-running goroutines, -race build of the uninstrumented tree)", Class: cls, Detail: map[string]any{"output": s, "error": err.Error()}})
	}
	w.Note("race_pass", strings.TrimSpace(lastLine(string(out))))
}

func lastLine(s string) string {
	ls := strings.Split(strings.TrimSpace(s), "\n")
	return ls[len(ls)-1]
}

func binDir() string {
	if d := os.Getenv("VERIF_BIN"); d != "" {
		return d
	}
	return "/verif/build/bin"
}

func jobsFor(quick bool) []jobT {
	var js []jobT
	n := len(scen.Scenarios())
	bounds := []int{0, 1}
	if !quick {
		bounds = []int{0, 1, 2}
	}
	for si := 0; si < n; si++ {
		bounds := bounds
		if quick && si < 2 {
			bounds = []int{0, 1, 2} // the two-thread definition scenarios are small enough for bound 2 on every change
		}
		for _, b := range bounds {
			ns := 1
			if b == 1 && (len(scen.Scenarios()[si].Calls) > 2 || strings.HasPrefix(scen.Scenarios()[si].Name, "S3") || strings.HasPrefix(scen.Scenarios()[si].Name, "S2")) {
				ns = 8
			}
			if b >= 2 {
				ns = 32
			}
			if quick && b >= 2 {
				ns = 16
			}
			for k := 0; k < ns; k++ {
				js = append(js, jobT{kind: "schedule", sc: si, bound: b, shard: k, nshards: ns})
			}
		}
		js = append(js, jobT{kind: "schedule", sc: si, bound: -1, onlySync: true})
	}
	for i := range scen.HistoryCalls() {
		js = append(js, jobT{kind: "history", idx: i})
	}
	for i := range lexPairs() {
		js = append(js, jobT{kind: "interleave", idx: i})
	}
	js = append(js, jobT{kind: "ebnfhistory"})
	js = append(js, jobT{kind: "race"})
	return js
}

func plan(c *hx.Ctx) *hx.Plan {
	js := jobsFor(c.Quick())
	depth, rounds := 3, 300
	var maxExecs int64 = 60000
	if !c.Quick() {
		depth, rounds, maxExecs = 4, 3000, 200000
	}
	return &hx.Plan{
		N: len(js),
		Job: func(w *hx.Worker, i int) {
			switch js[i].kind {
			case "schedule":
				// the scheduler is process-global: every schedule exploration runs in a process of its own
				runSub(w, i, c.Tier)
			case "history":
				runHistories(w, depth, js[i].idx)
			case "interleave":
				runInterleavings(w, js[i].idx)
			case "ebnfhistory":
				runEbnfHistories(w, 4)
			case "race":
				runRacePass(w, rounds)
			}
		},
		Describe: func(i int) string { return fmt.Sprintf("%+v", js[i]) },
		Rule:     "schedules: 8 scenarios of 2-3 threads with one call each on ONE shared parser / lexer definition / the ebnf package parser (inputs chosen to hit the same and different back-reference cache keys, success / failure / lex error / String()), run on instrumented copies of the current sources (a scheduling point at every function entry, loop head and sync operation) under a cooperative scheduler; DFS over all schedules with at most 0, 1 (thorough: 2) preemptions, plus ALL schedules at sync-operation granularity; histories: BFS over every sequence of up to 3 (thorough 4) calls from a 9-call alphabet on one shared parser; interleavings: every interleaving at Next() granularity of 2-3 live lexers of one shared definition (runtime back-reference cache, NUL-aliasing cache keys, nested states, and a lexer generated by the repository's CLI). Oracle: every call returns what it returns on a fresh instance used alone; no deadlock; schedules that fail are replayed twice and must reproduce. A separate free-running pass of the same scenario bodies built with -race from the uninstrumented tree looks for data races (detector run, not an enumeration). evaluations = executions + histories + interleavings",
		Bounds:   map[string]any{"preemption_bounds": map[bool]string{true: "0,1 (and 2 for the two-thread definition scenarios S1a, S1b)", false: "0,1,2"}[c.Quick()], "history_depth": depth, "race_rounds": rounds, "max_executions_per_scenario_and_bound": maxExecs, "granularity": "function entry + loop head + sync op"},
		Assume:   []string{"interleavings inside a basic block and weak-memory effects are not explored", "data races are decided only by the race detector on the executed scenarios", "generated lexer code is not instrumented: it is covered at Next() granularity and by the race pass"},
	}
}

func replay(c *hx.Ctx, key string) []hx.Violation {
	w := hx.NewReplayWorker()
	switch {
	case strings.HasPrefix(key, "schedule "):
		var name, choices string
		var onlySync bool
		fmt.Sscanf(key[strings.Index(key, "scenario="):], "scenario=%q onlysync=%t choices=%s", &name, &onlySync, &choices)
		var prefix []int
		for _, p := range strings.Split(strings.TrimSuffix(choices, "."), ".") {
			if p != "" {
				var n int
				fmt.Sscan(p, &n)
				prefix = append(prefix, n)
			}
		}
		for _, sc := range scen.Scenarios() {
			if sc.Name == name {
				e := &explorer{sc: sc, expected: expectedOf(sc), onlySync: onlySync, w: w, outcomes: map[string]bool{}}
				x := e.run(prefix)
				if len(x.Points) != len(prefix) && x.Err == "" {
					// a replayed prefix that diverges is a hard error
					return []hx.Violation{{Key: key, Class: "replay-diverged", Detail: map[string]any{"points": len(x.Points), "recorded": len(prefix)}}}
				}
				e.check(x, prefix)
			}
		}
	case strings.HasPrefix(key, "history "):
		for i := range scen.HistoryCalls() {
			runHistories(w, 4, i)
		}
	case strings.HasPrefix(key, "interleaving "):
		for i := range lexPairs() {
			runInterleavings(w, i)
		}
	default:
		runRacePass(w, 300)
	}
	var out []hx.Violation
	for _, v := range w.Violations() {
		if v.Key == key || strings.HasPrefix(key, "schedule ") {
			out = append(out, v)
		}
	}
	return out
}

// runSub runs one schedule-exploration job in a subprocess and merges its results.
func runSub(w *hx.Worker, i int, tier string) {
	cmd := exec.Command(os.Args[0])
	cmd.Env = append(os.Environ(), fmt.Sprintf("VERIF_SCHED_SUB=%d", i), "VERIF_SCHED_TIER="+tier, "GOMAXPROCS=2")
	cmd.Stderr = os.Stderr
	out, err := cmd.Output()
	var d hx.WorkerDump
	if jerr := json.Unmarshal(out, &d); err != nil || jerr != nil {
		w.Violate(hx.Violation{Key: fmt.Sprintf("schedule job %d", i), Class: "explorer-subprocess-failed", Detail: map[string]any{"error": fmt.Sprint(err, jerr), "output": string(out)}})
		return
	}
	w.Merge(d)
}

func subMain(i int, tier string) {
	quick := tier != "thorough"
	js := jobsFor(quick)
	var maxExecs int64 = 60000
	if !quick {
		maxExecs = 200000 // per (scenario, bound, shard); with the 90-second budget per shard below
	}
	w := hx.NewReplayWorker()
	runSchedule(w, js[i], maxExecs)
	b, _ := json.Marshal(w.Dump())
	os.Stdout.Write(b)
}

func main() {
	scen.Yield = vsched.SyncPoint // the slow readers of the scenarios hand control to the scheduler before every Read
	if s := os.Getenv("VERIF_SCHED_SUB"); s != "" {
		var i int
		fmt.Sscan(s, &i)
		subMain(i, os.Getenv("VERIF_SCHED_TIER"))
		return
	}
	hx.Main(&hx.Spec{Engine: "schedx", JobTimeout: 10 * time.Minute, Levels: map[string]string{"C09": "model_checking"}, Plan: plan, Replay: replay})
}
