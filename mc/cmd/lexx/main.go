// lexx: bounded exhaustive exploration of stateful-lexer rule maps x inputs (properties C03 C04 C07 C16).
package main

import (
	"encoding/json"
	"fmt"
	"io"
	"runtime/debug"
	"strconv"
	"strings"
	"testing/iotest"
	"text/scanner"
	"time"

	"github.com/alecthomas/participle/v2/lexer"

	"verif/mc/internal/hx"
	"verif/mc/internal/lexdrive"
	"verif/mc/internal/lexfam"
	m "verif/mc/internal/lexmodel"
)

type job struct {
	fam    string
	def    m.Def
	inputs []string
}

type tok struct {
	typ lexer.TokenType
	val string
	pos lexer.Position
}

type explorer struct {
	prop string
	w    *hx.Worker
}

func key(fam string, def m.Def, in string) string {
	return fmt.Sprintf("%s :: %s :: in=%q", fam, def.String(), in)
}

func symName(symbols map[string]lexer.TokenType) map[lexer.TokenType]string {
	out := map[lexer.TokenType]string{}
	for n, t := range symbols {
		out[t] = n
	}
	return out
}

func (e *explorer) runDef(fam string, def m.Def, inputs []string) {
	w := e.w
	if def.HasIncludeCycle() {
		w.Count("defs_skipped:include cycle", 1)
		return
	}
	var d *lexer.StatefulDefinition
	var err error
	declared := def.ToRules()
	pan, _ := hx.Guard(func() { d, err = lexer.New(declared) })
	if e.prop == "C16" {
		// the rule map handed to the constructor is the caller's: it is edited afterwards (a second dialect is
		// derived from it in place); the definition and what it serialises to are not
		for st, rs := range declared {
			for i := range rs {
				rs[i].Pattern = "EDITED"
				rs[i].Name = "Edited"
				rs[i].Action = nil
			}
			declared[st] = append(rs, lexer.Rule{Name: "More", Pattern: "more"})
		}
		declared["Another"] = []lexer.Rule{{Name: "Y", Pattern: "y"}}
	}
	if pan {
		w.Count("defs_skipped:constructor panics (duplicate names with different patterns)", 1)
		return
	}
	if err != nil {
		w.Count("defs_rejected_by_constructor", 1)
		return
	}
	w.Count("definitions", 1)
	model := m.New(def)
	names := symName(d.Symbols())
	noElided := true
	for _, rs := range def {
		for _, r := range rs {
			if m.Elided(r.Name) {
				noElided = false
			}
		}
	}
	// C16: round trips
	var rt []*lexer.StatefulDefinition
	if e.prop == "C16" {
		// what a caller does with the map returned by Rules() must not reach the definition
		if rr := d.Rules(); rr != nil {
			for st, rs := range rr {
				for i := range rs {
					rs[i].Pattern = "CLOBBERED"
					rs[i].Name = "Clobbered"
				}
				rr[st] = append(rs, lexer.Rule{Name: "Extra", Pattern: "extra"})
			}
			rr["ExtraState"] = []lexer.Rule{{Name: "X", Pattern: "x"}}
		}
		// results of direct MarshalJSON calls belong to the caller: a later call does not rewrite them
		{
			b1, err1 := d.MarshalJSON()
			s1 := string(b1)
			var later [][]byte
			for _, rs := range def.ToRules() {
				for _, r := range rs {
					if b, err := r.MarshalJSON(); err == nil {
						later = append(later, b)
					}
				}
			}
			b2, _ := d.MarshalJSON()
			if err1 == nil && (string(b1) != s1 || string(b2) != s1) {
				w.Violate(hx.Violation{Key: key(fam, def, "") + " :: MarshalJSON called directly, result kept", Class: "roundtrip-failed", Detail: map[string]any{"stage": "the bytes returned by MarshalJSON changed after later MarshalJSON calls", "when_returned": s1, "now": string(b1), "second_call": string(b2)}})
			}
			_ = later
		}
		srcs := []func() ([]byte, error){
			func() ([]byte, error) { return json.Marshal(d) },
			func() ([]byte, error) { return json.Marshal(def.ToRules()) },
		}
		if fam == "names" {
			// anything that depends on the iteration order of a map shows up only some of the time
			for k := 0; k < 3; k++ {
				srcs = append(srcs, srcs[0], srcs[1])
			}
		}
		for i, src := range srcs {
			which := []string{"json.Marshal(definition)", "json.Marshal(rules)"}[i%2]
			var d2 *lexer.StatefulDefinition
			var stage string
			pan, msg := hx.Guard(func() {
				b, err := src()
				if err != nil {
					stage = "marshal: " + err.Error()
					return
				}
				var rules lexer.Rules
				if err := json.Unmarshal(b, &rules); err != nil {
					stage = "unmarshal: " + err.Error() + " json=" + string(b)
					return
				}
				d2, err = lexer.New(rules)
				if err != nil {
					stage = "New(unmarshalled): " + err.Error() + " json=" + string(b)
				}
			})
			if pan {
				stage = "panic: " + msg
			}
			if stage != "" {
				w.Violate(hx.Violation{Key: key(fam, def, "") + " :: " + which, Class: "roundtrip-failed", Detail: map[string]any{"stage": stage}})
				continue
			}
			// symbol tables: same names; same numbering for the definition round trip
			s1, s2 := d.Symbols(), d2.Symbols()
			same := len(s1) == len(s2)
			for n, t := range s1 {
				if t2, ok := s2[n]; !ok || t2 != t {
					same = false
				}
			}
			if !same {
				w.Violate(hx.Violation{Key: key(fam, def, "") + " :: " + which, Class: "symbols-differ", Detail: map[string]any{"before": fmt.Sprint(s1), "after": fmt.Sprint(s2)}})
				continue
			}
			rt = append(rt, d2)
		}
	}
	// several live lexers of ONE definition, advanced alternately, must not disturb each other (C03: the
	// stream is the one the rules define; C07: no panic): inputs that reach different deep state stacks
	if (e.prop == "C03" || e.prop == "C07") && len(def) > 1 && len(inputs) > 20 {
		var picks []string
		perSig := map[string]int{}
		for _, in := range inputs {
			mr := model.Lex(in)
			if mr.MaxDepth >= 2 && perSig[mr.StackSig] < 2 && len(picks) < 12 {
				perSig[mr.StackSig]++
				picks = append(picks, in)
			}
		}
		alone := map[string]string{}
		for _, in := range picks {
			alone[in] = runString(lexdrive.Drive(d, "f.txt", in, 0))
		}
	pairs:
		for _, a := range picks {
			for _, b := range picks {
				w.Count("evaluations", 1)
				w.Count("interleaved_pairs", 1)
				ra, rb := driveAlternately(d, a, b)
				if runString(ra) != alone[a] || runString(rb) != alone[b] {
					w.Violate(hx.Violation{Key: key(fam, def, a) + fmt.Sprintf(" :: interleaved with %q", b), Class: "lexers-of-one-definition-interfere",
						Detail: map[string]any{"a_alone": alone[a], "a_interleaved": runString(ra), "b_alone": alone[b], "b_interleaved": runString(rb)}})
					break pairs
				}
			}
		}
	}
	// the text may arrive through any io.Reader: one that hands out its last bytes together with io.EOF,
	// one byte at a time, or in chunks that cut runes in half - the token stream is that of the text
	if e.prop == "C03" || e.prop == "C04" {
		var picks []string
		if len(inputs) > 0 {
			picks = append(picks, inputs[len(inputs)-1], inputs[len(inputs)/2], inputs[len(inputs)/3])
		}
		if len(picks) > 0 {
			picks = append(picks, "\ufeff"+picks[0]) // a byte order mark is text like any other
		}
		for _, in := range picks {
			want := runString(lexdrive.Drive(d, "f.txt", in, 0))
			for ri, mk := range []func() io.Reader{
				func() io.Reader { return iotest.DataErrReader(strings.NewReader(in)) },
				func() io.Reader { return iotest.OneByteReader(strings.NewReader(in)) },
				func() io.Reader { return iotest.DataErrReader(iotest.OneByteReader(strings.NewReader(in))) },
				func() io.Reader { return &chunkReader{s: in, n: 3} },
			} {
				w.Count("evaluations", 1)
				w.Count("reader_shapes", 1)
				if got := runString(driveReader(d, mk())); got != want {
					w.Violate(hx.Violation{Key: key(fam, def, in) + fmt.Sprintf(" :: reader#%d", ri), Class: "reader-shape-changes-tokens", Detail: map[string]any{"from_string": want, "from_reader": got,
						"reader": []string{"iotest.DataErrReader", "iotest.OneByteReader", "DataErrReader(OneByteReader)", "3-byte chunks, last one together with io.EOF"}[ri]}})
					break
				}
			}
		}
	}
	// token slices handed out by lexer.ConsumeAll stay what they were when later inputs are lexed
	if e.prop == "C04" && len(inputs) > 2 {
		a, b := inputs[len(inputs)-1], inputs[len(inputs)/2]
		consume := func(in string) ([]lexer.Token, error) {
			lx, err := d.Lex("a.txt", strings.NewReader(in))
			if err != nil {
				return nil, err
			}
			return lexer.ConsumeAll(lx)
		}
		w.Count("evaluations", 1)
		pan, msg := hx.Guard(func() {
			ta, _ := consume(a)
			before := fmt.Sprintf("%#v", ta)
			_, _ = consume(b)
			_, _ = consume(a + b)
			if after := fmt.Sprintf("%#v", ta); after != before {
				w.Violate(hx.Violation{Key: key(fam, def, a) + fmt.Sprintf(" :: then ConsumeAll of %q", b), Class: "tokens-change-after-they-were-returned", Detail: map[string]any{"when_returned": before, "after_lexing_other_inputs": after}})
			}
		})
		_, _ = pan, msg
	}
	for _, in := range inputs {
		w.Case(func() string { return key(fam, def, in) })
		w.Count("evaluations", 1)
		r := lexdrive.Drive(d, "f.txt", in, 3)
		switch e.prop {
		case "C07":
			if r.Panicked != "" {
				w.Violate(hx.Violation{Key: key(fam, def, in), Class: "panic", Detail: map[string]any{"panic": r.Panicked}})
			} else if r.Extra != "" {
				w.Violate(hx.Violation{Key: key(fam, def, in), Class: "progress", Detail: map[string]any{"what": r.Extra}})
			}
			var ty strings.Builder
			for _, t := range r.Toks {
				fmt.Fprintf(&ty, "%d,", t.Type)
			}
			w.DistinctS(fmt.Sprintf("%s/%v/%v", ty.String(), r.Err != nil, r.EOF != nil))
			if len(in) >= 3 && r.Err == nil {
				w.Sample(map[string]any{"definition": def.String(), "input": in, "tokens": len(r.Toks)})
			}
		case "C04":
			if r.Panicked == "" && r.Err == nil && r.Extra != "" {
				// an empty token or a token stream that does not end: offsets are not strictly increasing
				w.Violate(hx.Violation{Key: key(fam, def, in), Class: "position-or-text", Detail: map[string]any{"what": r.Extra}})
				continue
			}
			if r.Panicked != "" || r.Err != nil || r.EOF == nil || r.Extra != "" {
				w.Count("inputs_not_lexed_successfully", 1)
				continue
			}
			if d := lexdrive.CheckLossless(in, "f.txt", r, noElided, false); d != "" {
				w.Violate(hx.Violation{Key: key(fam, def, in), Class: "position-or-text", Detail: map[string]any{"what": d}})
			}
			w.DistinctS(fmt.Sprint(r.Toks))
			if len(in) >= 3 && strings.Contains(in, "\n") {
				w.Sample(map[string]any{"definition": def.String(), "input": in, "tokens": fmt.Sprintf("%#v", r.Toks)})
			}
		case "C03":
			mr := model.Lex(in)
			w.Count("transitions", int64(mr.Steps))
			w.Count("traces_validated_against_impl", 1)
			if mr.Underflow {
				w.Count("inputs_with_stack_underflow (compared up to that point)", 1)
			}
			if d := compareC03(in, r, mr, names); d != "" {
				w.Violate(hx.Violation{Key: key(fam, def, in), Class: d[:strings.IndexByte(d+":", ':')], Detail: map[string]any{"what": d, "model": fmt.Sprintf("%+v", mr), "impl_tokens": fmt.Sprintf("%#v", r.Toks), "impl_err": fmt.Sprint(r.Err), "impl_panic": r.Panicked}})
			}
			w.DistinctS(fmt.Sprintf("%v|%d", mr.Toks, mr.ErrOff))
			if len(in) >= 3 && mr.ErrOff < 0 && len(mr.Toks) >= 2 {
				w.Sample(map[string]any{"definition": def.String(), "input": in, "model_tokens": fmt.Sprintf("%v", mr.Toks)})
			}
		case "C16":
			for i, d2 := range rt {
				r2 := lexdrive.Drive(d2, "f.txt", in, 0)
				if d := sameRun(r, r2); d != "" {
					w.Violate(hx.Violation{Key: key(fam, def, in) + fmt.Sprintf(" :: roundtrip#%d", i), Class: "tokens-differ-after-roundtrip", Detail: map[string]any{"what": d}})
				}
			}
			w.DistinctS(fmt.Sprintf("%v|%v", r.Toks, r.Err))
			if len(in) >= 2 && r.Err == nil {
				b, _ := json.Marshal(d)
				w.Sample(map[string]any{"definition": def.String(), "json": string(b), "input": in})
			}
		}
	}
}

func runString(r lexdrive.Run) string {
	return fmt.Sprintf("%v|%v|%v|%q", r.Toks, r.EOF != nil, r.Err, r.Panicked)
}

// chunkReader hands out n bytes per Read and the last chunk together with io.EOF.
type chunkReader struct {
	s string
	n int
}

func (c *chunkReader) Read(p []byte) (int, error) {
	k := c.n
	if k > len(c.s) {
		k = len(c.s)
	}
	if k > len(p) {
		k = len(p)
	}
	copy(p, c.s[:k])
	c.s = c.s[k:]
	if len(c.s) == 0 {
		return k, io.EOF
	}
	return k, nil
}

// driveReader lexes what the reader delivers (same shape of result as lexdrive.Drive without extra calls).
func driveReader(def lexer.Definition, rd io.Reader) (r lexdrive.Run) {
	pan, msg := hx.Guard(func() {
		lx, err := def.Lex("f.txt", rd)
		if err != nil {
			r.Err = err
			return
		}
		for {
			t, err := lx.Next()
			if err != nil {
				r.Err = err
				return
			}
			if t.EOF() {
				tt := t
				r.EOF = &tt
				return
			}
			r.Toks = append(r.Toks, t)
			if len(r.Toks) > 64 {
				return
			}
		}
	})
	if pan {
		r.Panicked = msg
	}
	return
}

// driveAlternately advances two lexers of one definition in lock step (A.Next, B.Next, ...).
func driveAlternately(def lexer.Definition, a, b string) (ra, rb lexdrive.Run) {
	la, _ := def.Lex("f.txt", strings.NewReader(a))
	lb, _ := def.Lex("f.txt", strings.NewReader(b))
	doneA, doneB := false, false
	step := func(lx lexer.Lexer, r *lexdrive.Run, done *bool) {
		if *done {
			return
		}
		pan, msg := hx.Guard(func() {
			t, err := lx.Next()
			if err != nil {
				r.Err = err
				*done = true
				return
			}
			if t.EOF() {
				tt := t
				r.EOF = &tt
				*done = true
				return
			}
			r.Toks = append(r.Toks, t)
			if len(r.Toks) > 64 {
				*done = true
			}
		})
		if pan {
			r.Panicked = msg
			*done = true
		}
	}
	for !doneA || !doneB {
		step(la, &ra, &doneA)
		step(lb, &rb, &doneB)
	}
	return
}

func sameRun(a, b lexdrive.Run) string {
	if (a.Panicked != "") != (b.Panicked != "") {
		return fmt.Sprintf("panic %q vs %q", a.Panicked, b.Panicked)
	}
	if (a.Err != nil) != (b.Err != nil) {
		return fmt.Sprintf("error %v vs %v", a.Err, b.Err)
	}
	if a.Err != nil && a.Err.Error() != b.Err.Error() {
		return fmt.Sprintf("error %v vs %v", a.Err, b.Err)
	}
	if len(a.Toks) != len(b.Toks) {
		return fmt.Sprintf("%d tokens vs %d", len(a.Toks), len(b.Toks))
	}
	for i := range a.Toks {
		if a.Toks[i] != b.Toks[i] {
			return fmt.Sprintf("token %d: %#v vs %#v", i, a.Toks[i], b.Toks[i])
		}
	}
	return ""
}

// compareC03 compares the real lexer's run with the reference lexer's.
func compareC03(in string, r lexdrive.Run, mr m.Result, names map[lexer.TokenType]string) string {
	// tokens before the point where the model stops (error / underflow / end)
	n := len(mr.Toks)
	if mr.Underflow {
		// compare only the tokens the model predicted; anything (but C07 forbids a panic) may follow
		if len(r.Toks) < n && r.Panicked == "" && r.Err == nil {
			return fmt.Sprintf("tokens: impl produced %d tokens, model predicts at least %d before the stack underflow", len(r.Toks), n)
		}
		for i := 0; i < n && i < len(r.Toks); i++ {
			if d := tokDiff(i, r.Toks[i], mr.Toks[i], names); d != "" {
				return d
			}
		}
		return ""
	}
	if r.Panicked != "" {
		return "panic: " + r.Panicked
	}
	for i := 0; i < n && i < len(r.Toks); i++ {
		if d := tokDiff(i, r.Toks[i], mr.Toks[i], names); d != "" {
			return d
		}
	}
	if mr.ErrOff >= 0 {
		if r.Err == nil {
			return fmt.Sprintf("verdict: impl lexed successfully, model stops with an error at offset %d", mr.ErrOff)
		}
		if len(r.Toks) != n {
			return fmt.Sprintf("tokens: impl produced %d tokens before its error, model %d", len(r.Toks), n)
		}
		if off, ok := lexdrive.ErrOffset(r.Err); !ok || off != mr.ErrOff {
			return fmt.Sprintf("errpos: impl error %v (offset %d), model error at offset %d", r.Err, off, mr.ErrOff)
		}
		return ""
	}
	if r.Err != nil {
		return fmt.Sprintf("verdict: impl error %v, model lexes successfully", r.Err)
	}
	if len(r.Toks) != n {
		return fmt.Sprintf("tokens: impl produced %d tokens, model %d", len(r.Toks), n)
	}
	if r.Extra != "" {
		return "eof: " + r.Extra
	}
	return ""
}

func tokDiff(i int, t lexer.Token, mt m.Tok, names map[lexer.TokenType]string) string {
	if names[t.Type] != mt.Name || t.Value != mt.Value || t.Pos.Offset != mt.Off {
		return fmt.Sprintf("token: #%d impl (%s %q @%d), model (%s %q @%d)", i, names[t.Type], t.Value, t.Pos.Offset, mt.Name, mt.Value, mt.Off)
	}
	return ""
}

func familiesFor(prop string, quick bool) []lexfam.Family {
	all := lexfam.All(quick)
	var out []lexfam.Family
	for _, f := range all {
		switch prop {
		case "C03":
			if f.Name == "json-escapes" {
				continue
			}
		case "C16":
			if f.Name == "positions" {
				continue
			}
		}
		out = append(out, f)
	}
	return out
}

func plan(c *hx.Ctx) *hx.Plan {
	var jobs []job
	famCount := map[string]any{}
	for _, f := range familiesFor(c.Prop, c.Quick()) {
		if x := c.Extra["family"]; x != "" && x != f.Name {
			continue
		}
		ins := lexfam.Inputs(f.Alphabet, f.MaxLen)
		if f.Inputs != nil {
			ins = f.Inputs
		}
		famCount[f.Name] = map[string]any{"definitions": len(f.Defs), "inputs_per_definition": len(ins), "alphabet": f.Alphabet, "max_len": f.MaxLen}
		for _, d := range f.Defs {
			jobs = append(jobs, job{f.Name, d, ins})
		}
	}
	extraJobs := 0
	if c.Prop == "C04" {
		extraJobs = 1 // the text/scanner lexer
	}
	if c.Prop == "C07" {
		extraJobs = 1 // a very long run of elided tokens
		// a Next that needed stack in proportion to the number of tokens it skips would overflow this limit (a
		// fatal error, which the supervisor attributes to the job); ordinary lexing needs a few KB
		debug.SetMaxStack(64 << 20)
	}
	return &hx.Plan{
		N: len(jobs) + extraJobs,
		Job: func(w *hx.Worker, i int) {
			if i >= len(jobs) && c.Prop == "C07" {
				longElidedRun(w)
				return
			}
			if i >= len(jobs) {
				textScannerJob(w, c.Quick())
				return
			}
			(&explorer{prop: c.Prop, w: w}).runDef(jobs[i].fam, jobs[i].def, jobs[i].inputs)
		},
		Describe: func(i int) string {
			if i >= len(jobs) && c.Prop == "C07" {
				return "long run of elided tokens"
			}
			if i >= len(jobs) {
				return "text/scanner lexer"
			}
			return jobs[i].fam + " :: " + jobs[i].def.String()
		},
		Rule:   "every rule map of the families (order: ordered pairs/triples of overlapping patterns; names; stack: every sequence of Push/Pop/Return/plain rules in Root and two sub-states; include: includes at every index, nested, with actions; backref: entering rules x body rules; positions; json-escapes) x every input string over the family alphabet up to the length bound, driven through the real Lexer.Next one call at a time (+3 calls after EOF / error). evaluations = (definition,input) pairs; distinct_nontrivial = distinct outcomes (token lists / error positions)",
		Bounds: map[string]any{"families": famCount},
		Assume: []string{"Go regexp decides whether a single pattern matches at the start of a text (trusted primitive)", "constructor-rejected rule maps are out of scope (counted)", "after a Pop/Return that empties the state stack C03 predicts nothing further (C07 still forbids a panic)"},
	}
}

// textScannerInterleaved: two live lexers of the default definition advanced alternately
func textScannerInterleaved(w *hx.Worker) {
	ins := []string{"alpha beta", "x 12", "\"s\" y\nz", "// c\nw", "日 é", ""}
	alone := map[string]string{}
	for _, in := range ins {
		alone[in] = runString(lexdrive.Drive(lexer.TextScannerLexer, "f.txt", in, 0))
	}
	for _, a := range ins {
		for _, b := range ins {
			w.Count("evaluations", 1)
			w.Count("interleaved_pairs", 1)
			ra, rb := driveAlternately(lexer.TextScannerLexer, a, b)
			if runString(ra) != alone[a] || runString(rb) != alone[b] {
				w.Violate(hx.Violation{Key: fmt.Sprintf("text/scanner :: in=%q :: interleaved with %q", a, b), Class: "lexers-of-one-definition-interfere",
					Detail: map[string]any{"a_alone": alone[a], "a_interleaved": runString(ra), "b_alone": alone[b], "b_interleaved": runString(rb)}})
				return
			}
		}
	}
}

// longElidedRun: one Next call that has to skip 300000 elided tokens (and 300000 calls that return one each).
func longElidedRun(w *hx.Worker) {
	d := lexer.MustSimple([]lexer.SimpleRule{{Name: "A", Pattern: `a`}, {Name: "ws", Pattern: ` `}, {Name: "B", Pattern: `b`}})
	for _, in := range []string{"a" + strings.Repeat(" ", 300000) + "a", strings.Repeat(" ", 300000), strings.Repeat("b", 300000) + " "} {
		w.Count("evaluations", 1)
		key := fmt.Sprintf("long :: %q x %d", in[len(in)/2:len(in)/2+1], len(in))
		pan, msg := hx.Guard(func() {
			lx, err := d.LexString("f.txt", in)
			if err != nil {
				panic(err)
			}
			n := 0
			for {
				t, err := lx.Next()
				if err != nil {
					panic(err)
				}
				if t.EOF() {
					if t.Pos.Offset != len(in) {
						panic(fmt.Sprintf("EOF at offset %d, input has %d bytes", t.Pos.Offset, len(in)))
					}
					break
				}
				n++
				if n > len(in) {
					panic("more tokens than bytes")
				}
			}
		})
		if pan {
			w.Violate(hx.Violation{Key: key, Class: "panic", Detail: map[string]any{"panic": msg}})
		}
		w.DistinctS(key)
	}
}

// textScannerReused: a scanner.Scanner the caller owns, initialised for one source after another and
// handed to LexWithScanner each time: every token carries the filename given with ITS source.
func textScannerReused(w *hx.Worker) {
	var sc scanner.Scanner
	sources := []struct{ name, text string }{{"one.txt", "alpha beta"}, {"two.txt", "x\n 12 \"s\""}, {"", "gamma"}, {"four.txt", "日 é z"}}
	for _, src := range sources {
		w.Count("evaluations", 1)
		sc.Init(strings.NewReader(src.text))
		lx := lexer.LexWithScanner(src.name, &sc)
		toks, err := lexer.ConsumeAll(lx)
		if err != nil {
			continue
		}
		r := lexdrive.Run{Toks: toks[:len(toks)-1], EOF: &toks[len(toks)-1]}
		if d := lexdrive.CheckLossless(src.text, src.name, r, false, true); d != "" {
			w.Violate(hx.Violation{Key: fmt.Sprintf("text/scanner :: LexWithScanner with a re-initialised scanner :: file=%q in=%q", src.name, src.text), Class: "position-or-text", Detail: map[string]any{"what": d}})
			return
		}
	}
}

func textScannerJob(w *hx.Worker, quick bool) {
	textScannerInterleaved(w)
	textScannerReused(w)
	alpha := []string{"a", "1", " ", "\n", "\r", "é", "日", "\"", "/", "*"}
	ml := 5
	if quick {
		ml = 4
	}
	for _, in := range lexfam.Inputs(alpha, ml) {
		w.Count("evaluations", 1)
		w.Count("text_scanner_inputs", 1)
		r := lexdrive.Drive(lexer.TextScannerLexer, "f.txt", in, 2)
		if r.Panicked != "" || r.Err != nil || r.EOF == nil || r.Extra != "" {
			w.Count("inputs_not_lexed_successfully", 1)
			continue
		}
		if d := lexdrive.CheckLossless(in, "f.txt", r, false, true); d != "" {
			w.Violate(hx.Violation{Key: fmt.Sprintf("text/scanner :: in=%q", in), Class: "position-or-text", Detail: map[string]any{"what": d}})
		}
		w.DistinctS(fmt.Sprint(r.Toks))
	}
}

func replay(c *hx.Ctx, k string) []hx.Violation {
	parts := strings.Split(k, " :: ")
	w := hx.NewReplayWorker()
	if parts[0] == "text/scanner" {
		textScannerJob(w, false)
		return w.Violations()
	}
	if parts[0] == "long" || strings.HasPrefix(k, "job:") {
		debug.SetMaxStack(64 << 20)
		longElidedRun(w)
		return w.Violations()
	}
	if len(parts) < 3 {
		return []hx.Violation{{Key: k, Class: "bad-replay-key"}}
	}
	in, _ := strconv.Unquote(strings.TrimPrefix(parts[2], "in="))
	for _, q := range []bool{true, false} {
		for _, f := range lexfam.All(q) {
			if f.Name != parts[0] {
				continue
			}
			for _, d := range f.Defs {
				if d.String() == parts[1] {
					(&explorer{prop: c.Prop, w: w}).runDef(f.Name, d, []string{in})
					return w.Violations()
				}
			}
		}
	}
	return []hx.Violation{{Key: k, Class: "definition-not-found-in-enumeration"}}
}

func main() {
	hx.Main(&hx.Spec{Engine: "lexx", JobTimeout: 30 * time.Second, Levels: map[string]string{"C03": "model_checking", "C04": "exploration", "C07": "exploration", "C16": "exploration"}, Plan: plan, Replay: replay})
}
