// genx: differential exploration of generated lexers (emitted by the repository's real generator and
// compiled at check time) against the runtime lexer built from the same rules (property C05).
package main

import (
	"testing/iotest"
	"encoding/json"
	"fmt"
	"os"
	"regexp"
	"regexp/syntax"
	"strings"
	"time"

	"github.com/alecthomas/participle/v2/lexer"

	_ "verif/mc/gen/lexers"
	"verif/mc/internal/genfam"
	"verif/mc/internal/genreg"
	"verif/mc/internal/hx"
	"verif/mc/internal/lexdrive"
	"verif/mc/internal/lexfam"
	m "verif/mc/internal/lexmodel"
	"verif/mc/internal/remodel"
)

const genDir = "/verif/mc/gen"

type genResult struct {
	OK    bool   `json:"ok"`
	Error string `json:"error"`
	Panic string `json:"panic"`
}

func loadJSON(path string, v any) {
	b, err := os.ReadFile(path)
	if err == nil {
		_ = json.Unmarshal(b, v)
	}
}

// rulePair holds both matchers for one rule.
type rulePair struct {
	re   *regexp.Regexp
	tree *syntax.Regexp
}

// divergence finds, for a (definition, input), the first lexing step at which possessive and
// backtracking matching disagree for a rule that is tried; it returns the number of tokens
// (emitted, non-elided) that are predicted identically before that step, or -1 if never divergent.
// It walks the reference lexer's own control (lexmodel semantics) for the runtime side.
type stepper struct {
	def      m.Def
	expanded map[string][]m.Rule
	pairs    map[string]*rulePair
}

func newStepper(d m.Def) *stepper {
	s := &stepper{def: d, expanded: map[string][]m.Rule{}, pairs: map[string]*rulePair{}}
	mm := m.New(d)
	for st := range d {
		s.expanded[st] = mm.Expanded(st)
		for _, r := range s.expanded[st] {
			if r.Act == m.Return {
				continue
			}
			if _, ok := s.pairs[r.Pattern]; !ok {
				re, err1 := regexp.Compile(`^(?:` + r.Pattern + `)`)
				tree, err2 := remodel.Parse(r.Pattern)
				if err1 != nil || err2 != nil {
					s.pairs[r.Pattern] = nil
					continue
				}
				s.pairs[r.Pattern] = &rulePair{re, tree}
			}
		}
	}
	return s
}

type predicted struct {
	toks       []m.Tok // tokens predicted (common to both disciplines) before divergence / end
	divergedAt int     // token count at divergence, -1 = none
	errOff     int     // -1 none
	underflow  bool
	steps      int
	stackSig   string // the deepest state stack reached (names joined), used to pick inputs for the interleaving test
	maxDepth   int
}

func (s *stepper) run(in string) predicted {
	p := predicted{divergedAt: -1, errOff: -1}
	stack := []string{"Root"}
	off := 0
	for off < len(in) {
	restart:
		p.steps++
		rules := s.expanded[stack[len(stack)-1]]
		var sel *m.Rule
		selEnd := -1
		for i := range rules {
			r := &rules[i]
			if r.Act == m.Return {
				if len(stack) == 1 {
					p.underflow = true
					return p
				}
				stack = stack[:len(stack)-1]
				goto restart
			}
			pr := s.pairs[r.Pattern]
			if pr == nil {
				p.divergedAt = len(p.toks)
				return p
			}
			b := -1
			if loc := pr.re.FindStringIndex(in[off:]); loc != nil {
				b = loc[1]
			}
			pm := remodel.Match(pr.tree, in[off:])
			if b != pm {
				p.divergedAt = len(p.toks)
				return p
			}
			if b >= 0 {
				sel, selEnd = r, b
				break
			}
		}
		if sel == nil || selEnd == 0 {
			p.errOff = off
			return p
		}
		switch sel.Act {
		case m.Push:
			stack = append(stack, sel.State)
			if len(stack) > p.maxDepth {
				p.maxDepth = len(stack)
				p.stackSig = strings.Join(stack, ">")
			}
		case m.Pop:
			if len(stack) == 1 {
				p.underflow = true
				return p
			}
			stack = stack[:len(stack)-1]
		}
		if !m.Elided(sel.Name) {
			p.toks = append(p.toks, m.Tok{Name: sel.Name, Value: in[off : off+selEnd], Off: off})
		}
		off += selEnd
	}
	return p
}

func key(it genfam.Item, in string) string {
	return fmt.Sprintf("%s :: %s :: in=%q", it.Family, it.Def.String(), in)
}

func symNames(symbols map[string]lexer.TokenType) map[lexer.TokenType]string {
	out := map[lexer.TokenType]string{}
	for n, t := range symbols {
		out[t] = n
	}
	return out
}

type shared struct {
	results  map[string]genResult
	compile  map[string]string
	cliCheck map[string]map[string]any
}

var propC04, propC07 bool

func runItem(w *hx.Worker, sh *shared, it genfam.Item, onlyInput *string) {
	var rt *lexer.StatefulDefinition
	var err error
	if pan, msg := hx.Guard(func() { rt, err = lexer.New(it.Def.ToRules()) }); pan {
		err = fmt.Errorf("lexer.New panicked: %s", msg)
	}
	if err != nil {
		w.Count("definitions_rejected_by_constructor", 1)
		return
	}
	w.Count("definitions", 1)
	w.Count("programs", 1)
	id := it.ID
	if r, ok := sh.results[id]; !ok || !r.OK {
		w.Violate(hx.Violation{Key: key(it, ""), Class: "generator-failed", Detail: map[string]any{"error": r.Error, "panic": r.Panic, "present": ok}})
		return
	}
	if msg, bad := sh.compile[id]; bad {
		w.Violate(hx.Violation{Key: key(it, ""), Class: "generated-code-does-not-compile", Detail: map[string]any{"error": msg}})
		return
	}
	gen, ok := genreg.Defs[id]
	if !ok {
		w.Violate(hx.Violation{Key: key(it, ""), Class: "generated-lexer-missing", Detail: map[string]any{}})
		return
	}
	if cc, ok := sh.cliCheck[id]; ok {
		w.Count("cli_runs_checked", 1)
		if ex, _ := cc["exit"].(float64); ex != 0 || cc["same_bytes_as_batch"] != true {
			w.Violate(hx.Violation{Key: key(it, ""), Class: "cli-output", Detail: cc})
		}
	}
	// symbol tables
	s1, s2 := rt.Symbols(), gen.Symbols()
	same := len(s1) == len(s2)
	for n, t := range s1 {
		if t2, ok := s2[n]; !ok || t2 != t {
			same = false
		}
	}
	if !same {
		w.Violate(hx.Violation{Key: key(it, ""), Class: "symbols-differ", Detail: map[string]any{"runtime": fmt.Sprint(s1), "generated": fmt.Sprint(s2)}})
		return
	}
	names := symNames(s1)
	st := newStepper(it.Def)
	ins := lexfam.Inputs(it.Alphabet, it.MaxLen)
	if onlyInput != nil {
		ins = []string{*onlyInput}
	}
	// several live lexers of ONE generated definition, advanced alternately, must not disturb each other
	if !propC04 && !propC07 && onlyInput == nil && (it.Family == "stack" || it.Family == "include" || it.Family == "names") {
		// inputs that drive the lexer at least two states deep, up to 3 per distinct deepest stack, at most 36
		// in all: every ordered pair of them is advanced alternately
		var picks []string
		perSig := map[string]int{}
		for _, in := range ins {
			pr := st.run(in)
			if pr.maxDepth >= 3 && perSig[pr.stackSig] < 3 && len(picks) < 36 {
				perSig[pr.stackSig]++
				picks = append(picks, in)
			}
		}
		if len(picks) < 2 {
			for _, in := range ins {
				if pr := st.run(in); pr.maxDepth >= 2 && perSig[pr.stackSig] < 3 && len(picks) < 12 {
					perSig[pr.stackSig]++
					picks = append(picks, in)
				}
			}
		}
		alone := map[string]lexdrive.Run{}
		for _, in := range picks {
			alone[in] = lexdrive.Drive(gen, "f.txt", in, 0)
		}
	pairs:
		for _, a := range picks {
			for _, b := range picks {
				w.Count("evaluations", 1)
				w.Count("interleaved_pairs", 1)
				ra, rb := driveAlternately(gen, a, b)
				if d := sameRun(alone[a], ra); d != "" {
					w.Violate(hx.Violation{Key: key(it, a) + fmt.Sprintf(" :: interleaved with %q", b), Class: "generated-lexers-interfere", Detail: map[string]any{"what": d}})
					break pairs
				}
				if d := sameRun(alone[b], rb); d != "" {
					w.Violate(hx.Violation{Key: key(it, b) + fmt.Sprintf(" :: interleaved with %q", a), Class: "generated-lexers-interfere", Detail: map[string]any{"what": d}})
					break pairs
				}
			}
		}
	}
	if propC07 && onlyInput == nil {
		// the empty input through every entry point (nil and zero-length buffers included): EOF at 1:1, no panic
		for name, mk := range map[string]func() (lexer.Lexer, error){
			"Lex(empty reader)": func() (lexer.Lexer, error) { return gen.Lex("f.txt", strings.NewReader("")) },
			"LexString(\"\")": func() (lexer.Lexer, error) {
				if sd, ok := gen.(lexer.StringDefinition); ok {
					return sd.LexString("f.txt", "")
				}
				return gen.Lex("f.txt", strings.NewReader(""))
			},
			"LexBytes(nil)": func() (lexer.Lexer, error) {
				if bd, ok := gen.(lexer.BytesDefinition); ok {
					return bd.LexBytes("f.txt", nil)
				}
				return gen.Lex("f.txt", strings.NewReader(""))
			},
			"LexBytes([]byte{})": func() (lexer.Lexer, error) {
				if bd, ok := gen.(lexer.BytesDefinition); ok {
					return bd.LexBytes("f.txt", make([]byte, 0, 8)[:0])
				}
				return gen.Lex("f.txt", strings.NewReader(""))
			},
		} {
			w.Count("evaluations", 1)
			var t lexer.Token
			var err error
			pan, msg := hx.Guard(func() {
				var lx lexer.Lexer
				if lx, err = mk(); err == nil {
					t, err = lx.Next()
				}
			})
			if pan {
				w.Violate(hx.Violation{Key: "generated " + key(it, "") + " :: " + name, Class: "panic", Detail: map[string]any{"panic": msg}})
			} else if err != nil || !t.EOF() || t.Pos.Offset != 0 || t.Pos.Line != 1 || t.Pos.Column != 1 {
				w.Violate(hx.Violation{Key: "generated " + key(it, "") + " :: " + name, Class: "progress", Detail: map[string]any{"what": fmt.Sprintf("empty input: token %#v, error %v", t, err)}})
			}
		}
	}
	if propC07 {
		// C07 on generated lexers: every Next returns, no panic, non-empty tokens, at most len(input) tokens,
		// EOF is sticky, calls after an error return (a hang is caught by the supervisor watchdog)
		for _, in := range ins {
			w.Case(func() string { return key(it, in) })
			w.Count("evaluations", 1)
			r := lexdrive.Drive(gen, "f.txt", in, 3)
			if r.Panicked != "" {
				w.Violate(hx.Violation{Key: "generated " + key(it, in), Class: "panic", Detail: map[string]any{"panic": r.Panicked}})
			} else if r.Extra != "" {
				w.Violate(hx.Violation{Key: "generated " + key(it, in), Class: "progress", Detail: map[string]any{"what": r.Extra}})
			}
			w.DistinctS(fmt.Sprintf("%d/%v/%v", len(r.Toks), r.Err != nil, r.EOF != nil))
			if len(in) >= 3 && r.Err == nil {
				w.Sample(map[string]any{"generated_lexer_for": it.Def.String(), "input": in, "tokens": len(r.Toks)})
			}
		}
		return
	}
	if propC04 {
		// C04 on generated lexers: positions and losslessness of every successful lex, from the input text alone
		noElided := true
		for _, rs := range it.Def {
			for _, r := range rs {
				if r.Act != m.Include && r.Act != m.Return && m.Elided(r.Name) {
					noElided = false
				}
			}
		}
		for _, in := range ins {
			w.Case(func() string { return key(it, in) })
			w.Count("evaluations", 1)
			r := lexdrive.Drive(gen, "f.txt", in, 1)
			if r.Panicked == "" && r.Err == nil && r.Extra != "" {
				w.Violate(hx.Violation{Key: "generated " + key(it, in), Class: "position-or-text", Detail: map[string]any{"what": r.Extra}})
				continue
			}
			if r.Panicked != "" || r.Err != nil || r.EOF == nil {
				w.Count("inputs_not_lexed_successfully", 1)
				continue
			}
			if d := lexdrive.CheckLossless(in, "f.txt", r, noElided, false); d != "" {
				w.Violate(hx.Violation{Key: "generated " + key(it, in), Class: "position-or-text", Detail: map[string]any{"what": d}})
				continue
			}
			// through LexBytes, with the caller re-using its buffer once lexing is over: the tokens handed
			// out are still the bytes of the input
			if bd, ok := gen.(lexer.BytesDefinition); ok && len(in) > 0 {
				buf := []byte(in)
				if lx, err := bd.LexBytes("f.txt", buf); err == nil {
					toks, err := lexer.ConsumeAll(lx)
					for i := range buf {
						buf[i] = 0xff
					}
					if err == nil {
						rb := lexdrive.Run{Toks: toks[:len(toks)-1], EOF: &toks[len(toks)-1]}
						if d := lexdrive.CheckLossless(in, "f.txt", rb, noElided, false); d != "" {
							w.Violate(hx.Violation{Key: "generated " + key(it, in) + " :: LexBytes, buffer reused", Class: "position-or-text", Detail: map[string]any{"what": d}})
							continue
						}
					}
				}
			}
			w.DistinctS(fmt.Sprint(r.Toks))
			if len(in) >= 3 && strings.Contains(in, "\n") {
				w.Sample(map[string]any{"generated_lexer_for": it.Def.String(), "input": in, "tokens": fmt.Sprintf("%#v", r.Toks)})
			}
		}
		return
	}
	// the generated definition's other entry points (LexString, LexBytes with the caller overwriting its buffer
	// once the tokens are out) give what Lex(reader) gives - which is compared with the runtime lexer below
	if onlyInput == nil && len(ins) > 2 {
		for _, in := range []string{ins[len(ins)-1], ins[len(ins)/2], ins[len(ins)/3]} {
			want := lexdrive.Drive(gen, "f.txt", in, 0)
			if want.Panicked != "" {
				continue
			}
			collect := func(lx lexer.Lexer, err error, after func()) (r lexdrive.Run) {
				pan, msg := hx.Guard(func() {
					if err != nil {
						r.Err = err
						return
					}
					for len(r.Toks) <= 64 {
						t, err := lx.Next()
						if err != nil {
							r.Err = err
							break
						}
						if t.EOF() {
							tt := t
							r.EOF = &tt
							break
						}
						r.Toks = append(r.Toks, t)
					}
					after()
				})
				if pan {
					r.Panicked = msg
				}
				return
			}
			w.Count("evaluations", 1)
			{
				// a reader that hands out its last bytes together with io.EOF, and one byte at a time
				lx, err := gen.Lex("f.txt", iotest.DataErrReader(strings.NewReader(in)))
				if d := sameRun(want, collect(lx, err, func() {})); d != "" {
					w.Violate(hx.Violation{Key: key(it, in) + " :: Lex(DataErrReader)", Class: "generated-differs", Detail: map[string]any{"what": "generated Lex(reader returning data together with io.EOF) vs generated Lex(strings.Reader): " + d}})
				}
				lx, err = gen.Lex("f.txt", iotest.DataErrReader(iotest.OneByteReader(strings.NewReader(in))))
				if d := sameRun(want, collect(lx, err, func() {})); d != "" {
					w.Violate(hx.Violation{Key: key(it, in) + " :: Lex(one byte at a time)", Class: "generated-differs", Detail: map[string]any{"what": "generated Lex(one byte per Read, last with io.EOF) vs generated Lex(strings.Reader): " + d}})
				}
			}
			if sd, ok := gen.(lexer.StringDefinition); ok {
				lx, err := sd.LexString("f.txt", in)
				if d := sameRun(want, collect(lx, err, func() {})); d != "" {
					w.Violate(hx.Violation{Key: key(it, in) + " :: LexString", Class: "generated-differs", Detail: map[string]any{"what": "generated LexString vs generated Lex(reader): " + d}})
				}
			}
			if bd, ok := gen.(lexer.BytesDefinition); ok {
				buf := []byte(in)
				lx, err := bd.LexBytes("f.txt", buf)
				got := collect(lx, err, func() {
					for i := range buf {
						buf[i] = '#'
					}
				})
				if d := sameRun(want, got); d != "" {
					w.Violate(hx.Violation{Key: key(it, in) + " :: LexBytes, buffer reused", Class: "generated-differs", Detail: map[string]any{"what": "generated LexBytes (caller overwrites its buffer afterwards) vs generated Lex(reader): " + d}})
				}
			}
		}
	}
	for _, in := range ins {
		w.Case(func() string { return key(it, in) })
		w.Count("evaluations", 1)
		pr := st.run(in)
		w.Count("transitions", int64(pr.steps))
		a := lexdrive.Drive(rt, "f.txt", in, 1)
		b := lexdrive.Drive(gen, "f.txt", in, 1)
		// model validation: where the possessive model agrees with regexp on all tried rules, the
		// model's step must equal the runtime lexer's step
		if d := cmpPrefix(pr, a, names, "runtime"); d != "" {
			w.Violate(hx.Violation{Key: key(it, in), Class: "model-vs-runtime", Detail: map[string]any{"what": d}})
			continue
		}
		w.Count("traces_validated_against_impl", 1)
		if pr.divergedAt >= 0 {
			w.Count("inputs_tolerated_from_some_step (possessive != backtracking)", 1)
		}
		if b.Panicked != "" {
			w.Violate(hx.Violation{Key: key(it, in), Class: "generated-panics", Detail: map[string]any{"panic": b.Panicked}})
			continue
		}
		if d := cmpPrefix(pr, b, names, "generated"); d != "" {
			w.Count("disagreements_checked", 1)
			w.Violate(hx.Violation{Key: key(it, in), Class: "generated-differs", Detail: map[string]any{"what": d, "runtime_tokens": fmt.Sprintf("%#v", a.Toks), "runtime_err": fmt.Sprint(a.Err), "generated_tokens": fmt.Sprintf("%#v", b.Toks), "generated_err": fmt.Sprint(b.Err)}})
			continue
		}
		if pr.divergedAt < 0 && !pr.underflow {
			// full agreement demanded, including positions and EOF
			if d := sameRun(a, b); d != "" {
				w.Count("disagreements_checked", 1)
				w.Violate(hx.Violation{Key: key(it, in), Class: "generated-differs", Detail: map[string]any{"what": d}})
				continue
			}
		}
		w.DistinctS(fmt.Sprintf("%v|%d|%d", pr.toks, pr.errOff, pr.divergedAt))
		if len(in) >= 3 && pr.divergedAt < 0 && len(pr.toks) >= 2 && it.Family == "operator" {
			w.Sample(map[string]any{"definition": it.Def.String(), "input": in, "tokens": fmt.Sprintf("%v", pr.toks)})
		}
	}
}

// driveAlternately advances two lexers of one definition in lock step (A.Next, B.Next, ...).
func driveAlternately(def lexer.Definition, a, b string) (ra, rb lexdrive.Run) {
	la, _ := def.Lex("f.txt", strings.NewReader(a))
	lb, _ := def.Lex("f.txt", strings.NewReader(b))
	doneA, doneB := false, false
	step := func(lx lexer.Lexer, r *lexdrive.Run, done *bool) {
		if *done {
			return
		}
		pan, msg := hx.Guard(func() {
			t, err := lx.Next()
			if err != nil {
				r.Err = err
				*done = true
				return
			}
			if t.EOF() {
				tt := t
				r.EOF = &tt
				*done = true
				return
			}
			r.Toks = append(r.Toks, t)
			if len(r.Toks) > 64 {
				*done = true
			}
		})
		if pan {
			r.Panicked = msg
			*done = true
		}
	}
	for !doneA || !doneB {
		step(la, &ra, &doneA)
		step(lb, &rb, &doneB)
	}
	return
}

// cmpPrefix checks a lexer run against the prediction up to the point the prediction is defined.
func cmpPrefix(pr predicted, r lexdrive.Run, names map[lexer.TokenType]string, who string) string {
	n := len(pr.toks)
	for i := 0; i < n; i++ {
		if i >= len(r.Toks) {
			return fmt.Sprintf("%s lexer produced %d tokens, %d predicted before the end/divergence (err=%v panic=%q)", who, len(r.Toks), n, r.Err, r.Panicked)
		}
		t, mt := r.Toks[i], pr.toks[i]
		if names[t.Type] != mt.Name || t.Value != mt.Value || t.Pos.Offset != mt.Off {
			return fmt.Sprintf("%s token #%d (%s %q @%d), predicted (%s %q @%d)", who, i, names[t.Type], t.Value, t.Pos.Offset, mt.Name, mt.Value, mt.Off)
		}
	}
	if pr.divergedAt >= 0 || pr.underflow {
		return ""
	}
	if pr.errOff >= 0 {
		if r.Err == nil {
			return fmt.Sprintf("%s lexer succeeded, error predicted at offset %d", who, pr.errOff)
		}
		if len(r.Toks) != n {
			return fmt.Sprintf("%s lexer produced %d tokens before its error, predicted %d", who, len(r.Toks), n)
		}
		if off, ok := lexdrive.ErrOffset(r.Err); !ok || off != pr.errOff {
			return fmt.Sprintf("%s lexer error %v at offset %d, predicted offset %d", who, r.Err, off, pr.errOff)
		}
		return ""
	}
	if r.Err != nil {
		return fmt.Sprintf("%s lexer error %v, success predicted", who, r.Err)
	}
	if len(r.Toks) != n {
		return fmt.Sprintf("%s lexer produced %d tokens, predicted %d", who, len(r.Toks), n)
	}
	if r.Extra != "" {
		return who + " lexer: " + r.Extra
	}
	return ""
}

func sameRun(a, b lexdrive.Run) string {
	if (a.Err != nil) != (b.Err != nil) {
		return fmt.Sprintf("runtime error %v vs generated error %v", a.Err, b.Err)
	}
	if a.Err != nil {
		ao, _ := lexdrive.ErrOffset(a.Err)
		bo, ok := lexdrive.ErrOffset(b.Err)
		if !ok || ao != bo {
			return fmt.Sprintf("error position: runtime %v, generated %v", a.Err, b.Err)
		}
		type poser interface{ Position() lexer.Position }
		if ap, ok1 := a.Err.(poser); ok1 {
			if bp, ok2 := b.Err.(poser); ok2 && ap.Position() != bp.Position() {
				return fmt.Sprintf("error position: runtime %v, generated %v", ap.Position(), bp.Position())
			}
		}
	}
	if len(a.Toks) != len(b.Toks) {
		return fmt.Sprintf("runtime %d tokens vs generated %d", len(a.Toks), len(b.Toks))
	}
	for i := range a.Toks {
		if a.Toks[i] != b.Toks[i] {
			return fmt.Sprintf("token %d: runtime %#v vs generated %#v", i, a.Toks[i], b.Toks[i])
		}
	}
	if a.EOF != nil && b.EOF != nil && *a.EOF != *b.EOF {
		return fmt.Sprintf("EOF: runtime %#v vs generated %#v", *a.EOF, *b.EOF)
	}
	if (a.EOF == nil) != (b.EOF == nil) {
		return "EOF presence differs"
	}
	if a.Extra != b.Extra {
		return fmt.Sprintf("after-EOF behaviour: runtime %q vs generated %q", a.Extra, b.Extra)
	}
	return ""
}

func load() *shared {
	sh := &shared{results: map[string]genResult{}, compile: map[string]string{}, cliCheck: map[string]map[string]any{}}
	loadJSON(genDir+"/results.json", &sh.results)
	loadJSON(genDir+"/compile_failures.json", &sh.compile)
	loadJSON(genDir+"/cli_check.json", &sh.cliCheck)
	return sh
}

func plan(c *hx.Ctx) *hx.Plan {
	propC04 = c.Prop == "C04"
	propC07 = c.Prop == "C07"
	items := genfam.Items(c.Quick())
	sh := load()
	fam := map[string]int{}
	for _, it := range items {
		fam[it.Family]++
	}
	return &hx.Plan{
		N:        len(items),
		Job:      func(w *hx.Worker, i int) { runItem(w, sh, items[i], nil) },
		Describe: func(i int) string { return items[i].Family + " :: " + items[i].Def.String() },
		Rule:     "operator family: every regexp built from the atoms {a,b,ab,é,[ab],[^a],[a-bé],.,(?s:.),^,$,\\b,\\B,(?i:a)} with up to 2 operators (3 on a reduced atom set in the thorough tier) from {concat,|,*,+,?,{2},{1,2},capture}, non-nullable, de-duplicated by simplified tree, as the first rule before one catch-all per alphabet character (so it is tried at every offset with every left context), also as an elided lower-case rule; structure family: stack/include/names/positions rule maps without back-references. Each definition is serialised with json.Marshal, run through the repository's real generator, compiled, and both lexers are driven on every input up to the bound. A step is tolerated only if the possessive reference matcher and regexp disagree on a rule tried at that step. evaluations = (definition,input) pairs; programs = definitions",
		Bounds:   map[string]any{"families": fam},
		Assume:   []string{"Go regexp and the Go compiler are trusted", "back-references, non-greedy operators and nullable rules are outside the generator's documented class (not enumerated)", "the possessive reference matcher is itself validated against the runtime lexer on every input where it agrees with regexp"},
	}
}

func replay(c *hx.Ctx, k string) []hx.Violation {
	propC04 = c.Prop == "C04"
	propC07 = c.Prop == "C07"
	k = strings.TrimPrefix(k, "generated ")
	parts := strings.Split(k, " :: ")
	w := hx.NewReplayWorker()
	if len(parts) < 3 {
		return []hx.Violation{{Key: k, Class: "bad-replay-key"}}
	}
	var in string
	fmt.Sscanf(strings.TrimPrefix(parts[2], "in="), "%q", &in)
	sh := load()
	for _, it := range genfam.Items(c.Quick()) {
		if it.Family == parts[0] && it.Def.String() == parts[1] {
			if parts[2] == `in=""` && !strings.Contains(k, "in=\"\" ") {
				runItem(w, sh, it, nil)
			} else {
				runItem(w, sh, it, &in)
			}
			return w.Violations()
		}
	}
	return []hx.Violation{{Key: k, Class: "definition-not-found (replay needs the same tier as the run: set VERIF_TIER)"}}
}

func main() {
	hx.Main(&hx.Spec{Engine: "genx", JobTimeout: 60 * time.Second, Levels: map[string]string{"C05": "model_checking", "C04": "exploration", "C07": "exploration"}, Plan: plan, Replay: replay})
}
