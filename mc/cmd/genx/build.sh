#!/bin/bash
# Builds the C05 explorer: generates Go lexers for every enumerated definition with the REAL
# generator of the repository's current working tree, compiles them, links them into genx.
set -u
cd /verif/mc
REPO=${VERIF_REPO:-/repo}
BIN=${VERIF_BIN:-/verif/build/bin}
MODFLAG=${VERIF_MODFLAG:-}
TIER=${VERIF_TIER:-quick}
GEN=/verif/mc/gen
mkdir -p /verif/build "$BIN"
exec 9>/verif/build/gen.lock
flock 9
rm -rf "$GEN/lexers" "$GEN"/*.json "$GEN/build_errors.txt"; mkdir -p "$GEN/lexers"
go build $MODFLAG -o "$BIN/genxprep" ./cmd/genxprep || exit 2
"$BIN/genxprep" emit "$GEN" "$TIER" || exit 2
# the real generator, driven in batch through an overlaid extra file (nothing re-implemented)
cat > "$GEN/overlay.json" <<EOJ
{"Replace": {"$REPO/cmd/participle/verif_batch.go": "/verif/mc/overlay/verif_batch.go"}}
EOJ
(cd "$REPO/cmd/participle" && go build -tags verif -overlay "$GEN/overlay.json" -o "$BIN/participle-batch" .) || { echo "cannot build the generator" >&2; exit 2; }
(cd "$REPO/cmd/participle" && go build -o "$BIN/participle-cli" .) || { echo "cannot build the CLI" >&2; exit 2; }
VERIF_GEN_BATCH="$GEN/defs.json" VERIF_GEN_RESULTS="$GEN/results.json" "$BIN/participle-batch" || { echo "batch generator failed" >&2; exit 2; }
# the real CLI on the first definitions: exit status and bytes must equal the batch output
python3 - "$GEN" "$BIN/participle-cli" <<'EOP'
import json,subprocess,sys,os
gen,cli=sys.argv[1],sys.argv[2]
items=json.load(open(gen+'/defs.json')); res=json.load(open(gen+'/results.json'))
out={}
for it in items[:8]:
    p=subprocess.run([cli,'gen','lexer','--name',it['name'],it['pkg']],input=json.dumps(it['rules']).encode(),capture_output=True)
    same=None
    if res.get(it['id'],{}).get('ok') and os.path.exists(it['out']):
        same=(open(it['out'],'rb').read()==p.stdout)
    out[it['id']]={'exit':p.returncode,'same_bytes_as_batch':same,'stderr':p.stderr.decode()[:300]}
json.dump(out,open(gen+'/cli_check.json','w'))
EOP
echo '{}' > "$GEN/compile_failures.json"
for round in 1 2 3 4 5 6; do
  "$BIN/genxprep" registry "$GEN" || exit 2
  if go build $MODFLAG ./gen/lexers/... 2> "$GEN/build_errors.txt"; then break; fi
  python3 - "$GEN" <<'EOP' || { cat "$GEN/build_errors.txt" >&2; echo "generated lexers do not compile and the failing files could not be identified" >&2; exit 2; }
import json,re,sys,os
gen=sys.argv[1]
fails=json.load(open(gen+'/compile_failures.json'))
new=0
for line in open(gen+'/build_errors.txt'):
    m=re.match(r'(gen/lexers/p\d+/([a-z0-9-]+)\.go):\d+:\d+: (.*)',line.strip())
    if m and m.group(2)!='reg':
        if m.group(2) not in fails:
            fails[m.group(2)]=m.group(3); new+=1
        try: os.remove('/verif/mc/'+m.group(1))
        except FileNotFoundError: pass
json.dump(fails,open(gen+'/compile_failures.json','w'))
sys.exit(0 if new else 1)
EOP
done
"$BIN/genxprep" registry "$GEN" || exit 2
go build $MODFLAG -o "$BIN/genx" ./cmd/genx || exit 2
