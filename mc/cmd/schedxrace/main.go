// schedxrace: the free-running race-detector pass of the C09 check. Built with -race from the
// UNINSTRUMENTED current sources; runs the same scenario bodies as the schedule explorer with real
// goroutines released by a barrier, every thread permutation, R rounds. The race detector's report
// (exit code 66) is the verdict; result mismatches are reported too.
package main

import (
	"fmt"
	"os"
	"runtime"
	"strings"
	"sync"

	"github.com/alecthomas/participle/v2/lexer"

	"verif/mc/gen/schedlex"
	"verif/mc/internal/scen"
)

func main() {
	scen.Yield = runtime.Gosched
	rounds := 200
	if len(os.Args) > 1 {
		fmt.Sscan(os.Args[1], &rounds)
	}
	bad := 0
	runs := 0
	for _, sc := range scen.Scenarios() {
		exp := make([]string, len(sc.Calls))
		for i, c := range sc.Calls {
			exp[i] = c.F(sc.New())
		}
		for r := 0; r < rounds; r++ {
			shared := sc.New()
			res := make([]string, len(sc.Calls))
			var wg sync.WaitGroup
			start := make(chan struct{})
			for i := range sc.Calls {
				i := (i + r) % len(sc.Calls) // rotate the start order
				wg.Add(1)
				go func() {
					defer wg.Done()
					<-start
					res[i] = sc.Calls[i].F(shared)
				}()
			}
			close(start)
			wg.Wait()
			runs++
			for i := range res {
				if res[i] != exp[i] {
					bad++
					fmt.Printf("MISMATCH scenario=%q call=%s\n got  %s\n want %s\n", sc.Name, sc.Calls[i].Name, res[i], exp[i])
				}
			}
		}
	}
	// S5: several live lexers of one generated definition / one runtime definition, concurrently
	defs := []struct {
		name string
		def  lexer.Definition
	}{{"generated quotes", schedlex.QuotesLexer}, {"runtime quotes", lexer.MustStateful(scen.QuoteRules())}}
	inputs := []string{`"it's" x`, `'say "hi"' y`, `"a (b 'c') d"`, `w`}
	for _, d := range defs {
		exp := map[string]string{}
		for _, in := range inputs {
			lx, _ := d.def.Lex("f", strings.NewReader(in))
			exp[in] = scen.TokenStream(lx)
		}
		for r := 0; r < rounds; r++ {
			var wg sync.WaitGroup
			start := make(chan struct{})
			res := make([]string, len(inputs))
			for i, in := range inputs {
				i, in := i, in
				wg.Add(1)
				go func() {
					defer wg.Done()
					<-start
					lx, _ := d.def.Lex("f", strings.NewReader(in))
					res[i] = scen.TokenStream(lx)
				}()
			}
			close(start)
			wg.Wait()
			runs++
			for i, in := range inputs {
				if res[i] != exp[in] {
					bad++
					fmt.Printf("MISMATCH definition=%q input=%q\n got  %s\n want %s\n", d.name, in, res[i], exp[in])
				}
			}
		}
	}
	fmt.Printf("race pass: %d concurrent runs, %d result mismatches\n", runs, bad)
	if bad > 0 {
		os.Exit(1)
	}
}
