// instr generates, from the CURRENT sources of the repository, the instrumented copies used by the
// C09 schedule explorer and an overlay file for `go build -overlay`:
//   - every non-test .go file of the root, lexer and ebnf packages gets vsched.Point() at each function
//     entry and loop head, and its imports of sync / sync/atomic are redirected to scheduler-aware shims;
//   - two virtual packages (vsched, vsched/vsync) are added to the module.
// Nothing is written into the repository.
package main

import (
	"bytes"
	"encoding/json"
	"fmt"
	"go/ast"
	"go/parser"
	"go/printer"
	"go/token"
	"os"
	"path/filepath"
	"strconv"
	"strings"
)

const modPath = "github.com/alecthomas/participle/v2"

func main() {
	repo, outDir := os.Args[1], os.Args[2]
	replace := map[string]string{}
	os.MkdirAll(outDir, 0o755)
	add := func(virtual, src string) {
		b, err := os.ReadFile(src)
		if err != nil {
			panic(err)
		}
		dst := filepath.Join(outDir, strings.ReplaceAll(strings.TrimPrefix(virtual, repo+"/"), "/", "_"))
		if err := os.WriteFile(dst, b, 0o644); err != nil {
			panic(err)
		}
		replace[virtual] = dst
	}
	add(filepath.Join(repo, "vsched", "vsched.go"), "/verif/mc/overlay/vsched/vsched.go.txt")
	add(filepath.Join(repo, "vsched", "vsync", "vsync.go"), "/verif/mc/overlay/vsync/vsync.go.txt")
	points := 0
	files := 0
	for _, dir := range []string{"", "lexer", "ebnf"} {
		ents, err := os.ReadDir(filepath.Join(repo, dir))
		if err != nil {
			panic(err)
		}
		for _, e := range ents {
			n := e.Name()
			if e.IsDir() || !strings.HasSuffix(n, ".go") || strings.HasSuffix(n, "_test.go") {
				continue
			}
			path := filepath.Join(repo, dir, n)
			src, err := os.ReadFile(path)
			if err != nil {
				panic(err)
			}
			out, np, err := instrument(path, src)
			if err != nil {
				fmt.Fprintln(os.Stderr, "instr:", path, err)
				os.Exit(2)
			}
			if np == 0 {
				continue
			}
			dst := filepath.Join(outDir, strings.ReplaceAll(filepath.Join(dir, n), "/", "_"))
			if err := os.WriteFile(dst, out, 0o644); err != nil {
				panic(err)
			}
			replace[path] = dst
			points += np
			files++
		}
	}
	b, _ := json.MarshalIndent(map[string]any{"Replace": replace}, "", " ")
	if err := os.WriteFile(filepath.Join(outDir, "overlay.json"), b, 0o644); err != nil {
		panic(err)
	}
	fmt.Printf("instr: %d files instrumented, %d scheduling points inserted\n", files, points)
}

func pointStmt() ast.Stmt {
	return &ast.ExprStmt{X: &ast.CallExpr{Fun: &ast.SelectorExpr{X: ast.NewIdent("vsched"), Sel: ast.NewIdent("Point")}}}
}

func instrument(path string, src []byte) ([]byte, int, error) {
	fset := token.NewFileSet()
	f, err := parser.ParseFile(fset, path, src, parser.ParseComments)
	if err != nil {
		return nil, 0, err
	}
	n := 0
	ast.Inspect(f, func(node ast.Node) bool {
		switch x := node.(type) {
		case *ast.FuncDecl:
			if x.Body != nil {
				x.Body.List = append([]ast.Stmt{pointStmt()}, x.Body.List...)
				n++
			}
		case *ast.FuncLit:
			x.Body.List = append([]ast.Stmt{pointStmt()}, x.Body.List...)
			n++
		case *ast.ForStmt:
			x.Body.List = append([]ast.Stmt{pointStmt()}, x.Body.List...)
			n++
		case *ast.RangeStmt:
			x.Body.List = append([]ast.Stmt{pointStmt()}, x.Body.List...)
			n++
		}
		return true
	})
	// redirect sync imports
	redirected := false
	for _, imp := range f.Imports {
		p, _ := strconv.Unquote(imp.Path.Value)
		if p == "sync" {
			imp.Path.Value = strconv.Quote(modPath + "/vsched/vsync")
			if imp.Name == nil {
				imp.Name = ast.NewIdent("sync")
			}
			redirected = true
		}
	}
	if n == 0 && !redirected {
		return nil, 0, nil
	}
	if n > 0 {
		spec := &ast.ImportSpec{Path: &ast.BasicLit{Kind: token.STRING, Value: strconv.Quote(modPath + "/vsched")}}
		decl := &ast.GenDecl{Tok: token.IMPORT, Specs: []ast.Spec{spec}}
		f.Decls = append([]ast.Decl{decl}, f.Decls...)
	}
	var buf bytes.Buffer
	// comments (incl. build tags / go:embed directives) are kept by position; the inserted statements have no position
	if err := printer.Fprint(&buf, fset, f); err != nil {
		return nil, 0, err
	}
	return buf.Bytes(), n + 1, nil
}
