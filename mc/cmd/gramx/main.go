// gramx: bounded exhaustive exploration of grammars x inputs x configurations against the
// reference semantics of the tag language (properties C01 C02 C10 C11 C13).
package main

import (
	"encoding/json"
	"fmt"
	"io"
	"math"
	"reflect"
	"strconv"
	"strings"
	"time"

	"github.com/alecthomas/participle/v2"
	"github.com/alecthomas/participle/v2/lexer"

	"verif/mc/internal/gfam"
	g "verif/mc/internal/gmodel"
	"verif/mc/internal/hx"
)

var lexDef = lexer.MustSimple([]lexer.SimpleRule{
	{Name: "Ident", Pattern: `[a-zA-Zſ]`},
	{Name: "Int", Pattern: `[0-9]`},
	{Name: "Punct", Pattern: `;`},
	{Name: "Space", Pattern: ` `},
	{Name: "Comment", Pattern: `#`},
	{Name: "NL", Pattern: `\n`},
})

var lookaheads = []int{0, 1, 2, 3, participle.MaxLookahead, -1}

type built struct {
	p   *participle.Parser[any]
	err error
}

func buildParser(gr *gfam.Grammar, tc g.TypeCache, k int) (p *participle.Parser[any], err error, panicked string) {
	rootT := tc.GoType(gr.Root)
	opts := []participle.Option{
		participle.Lexer(lexDef),
		participle.UseLookahead(k),
		participle.Union[any](reflect.New(rootT).Elem().Interface()),
	}
	slotSeen := map[int]bool{}
	for _, u := range gr.Root.Unions() {
		if slotSeen[u.UnionSlot] {
			continue // the same union leaf used twice in one grammar: one Union option per interface type
		}
		slotSeen[u.UnionSlot] = true
		opts = append(opts, unionOption(u, tc))
	}
	// one Elide option per type: the elision set is the union of all Elide options
	for _, el := range gr.Elide {
		opts = append(opts, participle.Elide(el))
	}
	if gr.Mapper {
		opts = append(opts, participle.Map(func(t lexer.Token) (lexer.Token, error) {
			if t.Value == "c" {
				t.Value = "cc+"
			}
			return t, nil
		}, "Ident"))
	}
	if len(gr.CI) > 0 {
		// one option per type, and one more for a type whose texts have no case: the set is the union
		for _, c := range gr.CI {
			opts = append(opts, participle.CaseInsensitive(c))
		}
		opts = append(opts, participle.CaseInsensitive("Int"))
	}
	pan, msg := hx.Guard(func() { p, err = participle.Build[any](opts...) })
	if pan {
		return nil, nil, msg
	}
	return p, err, ""
}

func unionOption(u *g.Prod, tc g.TypeCache) participle.Option {
	var ms []any
	for _, m := range u.Members {
		ms = append(ms, reflect.New(tc.GoType(m)).Elem().Interface())
	}
	switch u.UnionSlot {
	case 0:
		return participle.Union[g.U0](toU[g.U0](ms)...)
	case 1:
		return participle.Union[g.U1](toU[g.U1](ms)...)
	default:
		return participle.Union[g.U2](toU[g.U2](ms)...)
	}
}

func toU[T any](ms []any) []T {
	out := make([]T, len(ms))
	for i, m := range ms {
		out[i] = m.(T)
	}
	return out
}

func inputs(alphabet string, maxLen int) []string {
	out := []string{""}
	prev := []string{""}
	for l := 1; l <= maxLen; l++ {
		var next []string
		for _, p := range prev {
			for _, c := range alphabet {
				next = append(next, p+string(c))
			}
		}
		out = append(out, next...)
		prev = next
	}
	return out
}

type inputT struct {
	group string // the non-elided token string (C10 groups re-spacings by it)
	in    string
}

func inputsFor(gr *gfam.Grammar) []inputT {
	var out []inputT
	if !gr.Spaced {
		for _, s := range inputs(gr.Alphabet, gr.MaxLen) {
			out = append(out, inputT{s, s})
		}
		return out
	}
	for _, ts := range inputs(gr.Alphabet, gr.MaxLen) {
		if len(ts) > gr.SpacedLen {
			out = append(out, inputT{ts, ts})
			continue
		}
		// every assignment of a fill to every gap (before, between, after)
		gaps := len(ts) + 1
		idx := make([]int, gaps)
		for {
			var sb strings.Builder
			for i := 0; i < gaps; i++ {
				sb.WriteString(gr.Fills[idx[i]])
				if i < len(ts) {
					sb.WriteByte(ts[i])
				}
			}
			out = append(out, inputT{ts, sb.String()})
			j := 0
			for ; j < gaps; j++ {
				idx[j]++
				if idx[j] < len(gr.Fills) {
					break
				}
				idx[j] = 0
			}
			if j == gaps {
				break
			}
		}
	}
	return out
}

type implResult struct {
	ok       bool
	v        reflect.Value // the root struct value
	raw      any
	err      error
	panicked string
}

func implParse(p *participle.Parser[any], in string, at bool, more ...participle.ParseOption) implResult {
	var r implResult
	pan, msg := hx.Guard(func() {
		v, err := p.ParseString("", in, append([]participle.ParseOption{participle.AllowTrailing(at)}, more...)...)
		r.err = err
		if err == nil {
			r.ok = true
			if v != nil {
				r.raw = *v
				r.v = reflect.ValueOf(*v)
			}
		}
	})
	if pan {
		r.panicked = msg
	}
	return r
}

type explorer struct {
	extendedChain bool
	prop          string
	w             *hx.Worker
	tc            g.TypeCache
}

// standaloneTest renders a violation as a plain Go test against the public API (no explorer needed):
// put it next to parser.go as zz_replay_test.go and run `go test -run TestVerifReplay .`.
func standaloneTest(gr *gfam.Grammar, in string, k int, at bool, modelAccepts bool, modelAST string) string {
	var sb strings.Builder
	sb.WriteString("package participle_test\n\nimport (\n\t\"testing\"\n\n\t\"github.com/alecthomas/participle/v2\"\n\t\"github.com/alecthomas/participle/v2/lexer\"\n)\n\nvar _ lexer.Token\n\n")
	sb.WriteString("var verifLexer = lexer.MustSimple([]lexer.SimpleRule{{Name: \"Ident\", Pattern: `[a-zA-Zſ]`}, {Name: \"Int\", Pattern: `[0-9]`}, {Name: \"Punct\", Pattern: `;`}, {Name: \"Space\", Pattern: ` `}, {Name: \"Comment\", Pattern: `#`}, {Name: \"NL\", Pattern: `\\n`}})\n\n")
	decls := gr.Root.GoDecls()
	sb.WriteString(decls)
	fmt.Fprintf(&sb, "func TestVerifReplay(t *testing.T) {\n\topts := []participle.Option{participle.Lexer(verifLexer), participle.UseLookahead(%d)", k)
	for _, e := range gr.Elide {
		fmt.Fprintf(&sb, ", participle.Elide(%q)", e)
	}
	for _, c := range gr.CI {
		fmt.Fprintf(&sb, ", participle.CaseInsensitive(%q)", c)
	}
	for _, u := range gr.Root.Unions() {
		fmt.Fprintf(&sb, ", participle.Union[%s](", u.Name)
		for i, m := range u.Members {
			if i > 0 {
				sb.WriteString(", ")
			}
			sb.WriteString(m.Name + "{}")
		}
		sb.WriteString(")")
	}
	fmt.Fprintf(&sb, "}\n\tp := participle.MustBuild[%s](opts...)\n\tv, err := p.ParseString(\"\", %q, participle.AllowTrailing(%v))\n", gr.Root.Name, in, at)
	fmt.Fprintf(&sb, "\t// reference semantics: accepts=%v\n\t// reference AST: %s\n", modelAccepts, modelAST)
	fmt.Fprintf(&sb, "\tif (err == nil) != %v {\n\t\tt.Fatalf(\"verdict differs from the grammar's meaning: err=%%v\", err)\n\t}\n\tt.Logf(\"AST: %%+v\", v)\n}\n", modelAccepts)
	return sb.String()
}

func cfgStr(k int, at bool) string { return fmt.Sprintf("k=%d trailing=%v", k, at) }

func caseKey(gr *gfam.Grammar, in string, cfg string) string {
	return fmt.Sprintf("%s :: in=%q :: %s", gr.Key(), in, cfg)
}

func (e *explorer) runGrammar(gr *gfam.Grammar, onlyInput *string) {
	w := e.w
	if r := gr.Root.OutOfDomain(); r != "" {
		w.Count("grammars_out_of_domain:"+r, 1)
		return
	}
	w.Count("grammars", 1)
	lookaheads := lookaheads
	if gr.Lookaheads != nil {
		lookaheads = gr.Lookaheads
	}
	if (e.prop == "C01" || e.prop == "C02") && gr.Lookaheads == nil && e.extendedChain {
		lookaheads = append(append([]int{}, lookaheads...), math.MaxInt64, -7)
	}
	if e.prop == "C13" && gr.Lookaheads == nil && e.extendedChain {
		// every value the option accepts: beyond MaxLookahead, beyond 32 bits, and several "unlimited" negatives
		lookaheads = []int{0, 1, 2, 3, participle.MaxLookahead, 1 << 32, 1<<32 + 1, math.MaxInt64, -1, -2, math.MinInt64}
	}
	parsers := make([]*participle.Parser[any], len(lookaheads))
	for i, k := range lookaheads {
		p, err, pan := buildParser(gr, e.tc, k)
		if pan != "" || err != nil {
			w.Violate(hx.Violation{Key: caseKey(gr, "", "build k="+strconv.Itoa(k)), Class: "build-failed", Detail: map[string]any{"error": fmt.Sprint(err), "panic": pan}})
			return
		}
		parsers[i] = p
	}
	memberTypes := map[*g.Prod]reflect.Type{}
	for _, u := range gr.Root.Unions() {
		for _, m := range u.Members {
			memberTypes[m] = e.tc.GoType(m)
		}
	}
	symbols := lexDef.Symbols()
	ins := inputsFor(gr)
	if onlyInput != nil {
		var sel []inputT
		for _, it := range ins {
			if it.in == *onlyInput || (e.prop == "C10" && it.group == tokensOnly(*onlyInput)) {
				sel = append(sel, it)
			}
		}
		ins = sel
	}
	copts := g.CompareOpts{Positions: gr.Positions, NamesElided: gr.NamesElided}
	// C10: per (token string, config) the outcome of the first spacing (the unspaced input)
	type refOutcome struct {
		in   string
		ok   bool
		rend string
	}
	var refs map[string]refOutcome
	lastGroup := "\x00"
	for _, it := range ins {
		in := it.in
		if it.group != lastGroup {
			lastGroup = it.group
			refs = map[string]refOutcome{}
		}
		w.Case(func() string { return caseKey(gr, in, "") })
		toks, err := parsers[0].Lex("", strings.NewReader(in))
		if err != nil {
			w.Count("inputs_unlexable", 1)
			continue
		}
		for _, at := range []bool{false, true} {
			var prev *implResult
			prevK := 0
			for ki, k := range lookaheads {
				ir := implParse(parsers[ki], in, at)
				w.Count("evaluations", 1)
				env := g.NewEnv(toks, symbols, gr.Elide, gr.CI, k, at)
				env.SetMemberTypes(memberTypes)
				out := env.Parse(gr.Root, true)
				w.Count("transitions", env.Steps)
				if out.Diag {
					w.Count("cases_out_of_domain:library grammar-bug diagnostic", 1)
					continue
				}
				cfg := cfgStr(k, at)
				if e.prop == "C13" {
					if !gr.HasNegLook {
						if e.extendedChain {
							// the same walk with the Trace option on: tracing observes, it does not steer
							tr := implParse(parsers[ki], in, at, participle.Trace(io.Discard))
							w.Count("evaluations", 1)
							if tr.ok != ir.ok || tr.panicked != ir.panicked || (tr.ok && !reflect.DeepEqual(tr.raw, ir.raw)) {
								w.Violate(hx.Violation{Key: caseKey(gr, in, fmt.Sprintf("k=%d trailing=%v Trace", k, at)), Class: "trace-option-changes-parse",
									Detail: map[string]any{"without_trace": fmt.Sprintf("ok=%v %s err=%v", ir.ok, g.RenderValue(ir.v, true), ir.err), "with_trace": fmt.Sprintf("ok=%v %s err=%v", tr.ok, g.RenderValue(tr.v, true), tr.err)}})
							}
						}
						if prev != nil && prev.ok && ir.panicked == "" {
							if !ir.ok {
								w.Violate(hx.Violation{Key: caseKey(gr, in, fmt.Sprintf("k=%d->%d trailing=%v", prevK, k, at)), Class: "success-lost-with-more-lookahead",
									Detail: map[string]any{"error": fmt.Sprint(ir.err)}})
							} else if !reflect.DeepEqual(prev.raw, ir.raw) {
								w.Violate(hx.Violation{Key: caseKey(gr, in, fmt.Sprintf("k=%d->%d trailing=%v", prevK, k, at)), Class: "ast-changed-with-more-lookahead",
									Detail: map[string]any{"before": g.RenderValue(prev.v, true), "after": g.RenderValue(ir.v, true)}})
							}
						}
						if ir.ok {
							w.DistinctS(g.RenderValue(ir.v, true))
							w.Count("accepting_cases", 1)
							if prev != nil && !prev.ok && len(in) >= 3 {
								w.Sample(map[string]any{"grammar": gr.Root.Source(), "input": in, "rejected_at_lookahead": prevK, "accepted_at_lookahead": k, "trailing": at, "ast": g.RenderValue(ir.v, true)})
							}
						}
						c := ir
						prev, prevK = &c, k
					}
					continue
				}
				if e.prop == "C10" && !gr.NamesElided && ir.panicked == "" {
					cur := refOutcome{in: in, ok: ir.ok}
					if ir.ok {
						cur.rend = g.RenderValue(ir.v, false)
					}
					if ref, ok := refs[cfg]; !ok {
						refs[cfg] = cur
					} else if ref.ok != cur.ok || ref.rend != cur.rend {
						w.Violate(hx.Violation{Key: caseKey(gr, in, cfg), Class: "respacing-changes-parse",
							Detail: map[string]any{"other_input": ref.in, "other_accepts": ref.ok, "other_ast": ref.rend, "this_accepts": cur.ok, "this_ast": cur.rend, "this_error": fmt.Sprint(ir.err)}})
						continue
					}
				}
				// model comparison (C01 C02 C10 C11)
				w.Count("traces_validated_against_impl", 1)
				if ir.panicked != "" {
					w.Violate(hx.Violation{Key: caseKey(gr, in, cfg), Class: "panic", Detail: map[string]any{"panic": ir.panicked, "model_accepts": out.Accept}})
					continue
				}
				if ir.ok != out.Accept {
					cls := "impl-accepts-model-rejects"
					if out.Accept {
						cls = "impl-rejects-model-accepts"
					}
					w.Violate(hx.Violation{Key: caseKey(gr, in, cfg), Class: cls, Detail: map[string]any{"impl_error": fmt.Sprint(ir.err), "impl_ast": g.RenderValue(ir.v, true),
						"standalone_test": standaloneTest(gr, in, k, at, out.Accept, "")}})
					continue
				}
				if !out.Accept {
					w.Count("rejecting_cases", 1)
					continue
				}
				w.Count("accepting_cases", 1)
				rend := env.Render(out.Tree)
				w.DistinctS(rend)
				if d := env.Compare(out.Tree, ir.v, copts); d != "" {
					w.Violate(hx.Violation{Key: caseKey(gr, in, cfg), Class: "ast-differs", Detail: map[string]any{"diff": d, "impl_ast": g.RenderValue(ir.v, true), "model_ast": rend,
						"standalone_test": standaloneTest(gr, in, k, at, true, rend+"   -- difference: "+d)}})
					continue
				}
				if e.prop == "C10" && !gr.NamesElided {
					w.Count("respacing_comparisons", 1)
				}
				if len(in) >= 3 && ki == 1 && strings.Count(rend, "\"") >= 4 && strings.Contains(gr.Root.Source(), "|") {
					w.Sample(map[string]any{"grammar": gr.Root.Source(), "input": in, "config": cfg, "ast": rend})
				}
			}
		}
	}
}

func tokensOnly(s string) string {
	var sb strings.Builder
	for _, c := range s {
		if c != ' ' && c != '#' && c != '\n' {
			sb.WriteRune(c)
		}
	}
	return sb.String()
}

func families(prop string, t gfam.Tier) []*gfam.Grammar {
	var out []*gfam.Grammar
	switch prop {
	case "C01":
		out = append(out, gfam.Core(t)...)
		out = append(out, gfam.NegLook(t)...)
		out = append(out, gfam.SubProd(t)...)
		out = append(out, gfam.Kinds(t)...)
		out = append(out, gfam.NegLookDeep(t)...)
		out = append(out, gfam.CaseInsensitive(t)...)
		out = append(out, gfam.EOFRef(t)...)
		out = append(out, gfam.ParseableFam(t)...)
		out = append(out, gfam.ElidedExplicit(t)...)
		out = append(out, gfam.CaptureComposite(t)...)
		out = append(out, gfam.RecursiveCaptures(t)...)
	case "C02":
		out = append(out, gfam.SubProd(t)...)
		out = append(out, gfam.NegLookDeep(t)...)
		out = append(out, gfam.ElidedExplicit(t)...) // abandoned alternatives that explicitly matched an elided token
		out = append(out, gfam.ParseableFam(t)...)
		out = append(out, gfam.CaptureComposite(t)...)
		out = append(out, gfam.RecursiveCaptures(t)...)
	case "C10":
		out = append(out, gfam.Elision(t)...)
		out = append(out, gfam.ElidedExplicit(t)...)
		out = append(out, gfam.EOFRef(t)...)
	case "C11":
		out = append(out, gfam.Positions(t)...)
	case "C13":
		out = append(out, gfam.Core(t)...)
		out = append(out, gfam.SubProd(t)...)
		out = append(out, gfam.Kinds(t)...)
	}
	return out
}

// runSharedOptions (C10): option values and the slices handed to them are the caller's. Two parsers built
// from one shared list of elided names (with spare capacity) plus one name of their own each, and a parser
// derived with ParserForProduction, still elide what they were told to elide.
type soStmt struct {
	Name string `@Ident`
	Val  string `@Int ";"`
}
type soDoc struct {
	Stmts []*soStmt `@@*`
}

func runSharedOptions(w *hx.Worker) {
	inputs := []string{"a1;", "a 1;", "a#1;", "a\n1;", " a 1 ; b 2 ;", "a#1\n;b 2;", "a 1;#\n", "#a 1;", "\n\na 1;"}
	render := func(v *soDoc, err error) string {
		b, _ := json.Marshal(v)
		return fmt.Sprintf("%s err=%v", b, err)
	}
	build := func(extra ...participle.Option) (*participle.Parser[soDoc], error) {
		return participle.Build[soDoc](append([]participle.Option{participle.Lexer(lexDef)}, extra...)...)
	}
	// reference: each configuration built alone with literal names
	refA, err1 := build(participle.Elide("Space", "Comment"))
	refB, err2 := build(participle.Elide("Space", "NL"))
	if err1 != nil || err2 != nil {
		w.Violate(hx.Violation{Key: "shared-options build", Class: "build-failed", Detail: map[string]any{"err": fmt.Sprint(err1, err2)}})
		return
	}
	common := make([]string, 0, 8)
	common = append(common, "Space")
	pA, err1 := build(participle.Elide(common...), participle.Elide("Comment"))
	pB, err2 := build(participle.Elide(common...), participle.Elide("NL"))
	if err1 != nil || err2 != nil {
		w.Violate(hx.Violation{Key: "shared-options build", Class: "build-failed", Detail: map[string]any{"err": fmt.Sprint(err1, err2)}})
		return
	}
	for i := range common[:cap(common)] {
		common[:cap(common)][i] = "Ident" // the caller re-uses its slice
	}
	for _, in := range inputs {
		w.Count("evaluations", 2)
		if a, b := render(pA.ParseString("", in)), render(refA.ParseString("", in)); a != b {
			w.Violate(hx.Violation{Key: fmt.Sprintf("shared-options :: first parser (Elide(common...), Elide(Comment)) :: in=%q", in), Class: "elision-set-changed-by-later-build-or-caller", Detail: map[string]any{"got": a, "built_alone": b}})
		}
		if a, b := render(pB.ParseString("", in)), render(refB.ParseString("", in)); a != b {
			w.Violate(hx.Violation{Key: fmt.Sprintf("shared-options :: second parser (Elide(common...), Elide(NL)) :: in=%q", in), Class: "elision-set-changed-by-later-build-or-caller", Detail: map[string]any{"got": a, "built_alone": b}})
		}
		w.DistinctS("so" + render(pA.ParseString("", in)))
	}
	// the elided types may be the 60th..130th rules of the lexer: token types are numbers of any size
	for _, fill := range []int{58, 59, 60, 61, 62, 63, 64, 126, 127, 130} {
		var rules []lexer.SimpleRule
		for i := 0; i < fill; i++ {
			rules = append(rules, lexer.SimpleRule{Name: fmt.Sprintf("F%d", i), Pattern: fmt.Sprintf("@f%d@", i)})
		}
		rules = append(rules, lexer.SimpleRule{Name: "Ident", Pattern: `[a-zA-Zſ]`}, lexer.SimpleRule{Name: "Int", Pattern: `[0-9]`}, lexer.SimpleRule{Name: "Punct", Pattern: `;`},
			lexer.SimpleRule{Name: "Space", Pattern: ` `}, lexer.SimpleRule{Name: "Comment", Pattern: `#`}, lexer.SimpleRule{Name: "NL", Pattern: `\n`})
		wide, err := lexer.NewSimple(rules)
		if err != nil {
			w.Violate(hx.Violation{Key: "shared-options wide lexer", Class: "build-failed", Detail: map[string]any{"err": err.Error()}})
			break
		}
		pw, err := participle.Build[soDoc](participle.Lexer(wide), participle.Elide("Space", "Comment", "NL"))
		if err != nil {
			w.Violate(hx.Violation{Key: "shared-options wide lexer", Class: "build-failed", Detail: map[string]any{"err": err.Error()}})
			break
		}
		want := render(pw.ParseString("", "a1;b2;"))
		for _, in := range []string{"a 1;b 2;", " a1;b2; ", "a#1;\nb 2;#", "\na1 ;b2 ;\n"} {
			w.Count("evaluations", 1)
			if got := render(pw.ParseString("", in)); got != want {
				w.Violate(hx.Violation{Key: fmt.Sprintf("shared-options :: lexer with %d rules in front of Ident..NL, Elide(Space, Comment, NL) :: in=%q", fill, in), Class: "respacing-changes-parse", Detail: map[string]any{"got": got, "unspaced_input_gives": want}})
			}
		}
	}
	// a parser derived for a sub-production elides like the parser it was derived from
	derived, err := participle.ParserForProduction[soStmt](refA)
	if err != nil {
		w.Violate(hx.Violation{Key: "shared-options ParserForProduction", Class: "build-failed", Detail: map[string]any{"err": err.Error()}})
		return
	}
	want := ""
	for i, in := range []string{"a1;", "a 1;", " a 1 ;", "a#1;", "a 1;#", "#a# #1;"} {
		w.Count("evaluations", 1)
		v, err := derived.ParseString("", in)
		b, _ := json.Marshal(v)
		got := fmt.Sprintf("%s err=%v", b, err)
		if i == 0 {
			want = got
		} else if got != want {
			w.Violate(hx.Violation{Key: fmt.Sprintf("shared-options :: ParserForProduction[Stmt] of a parser with Elide(Space, Comment) :: in=%q", in), Class: "respacing-changes-parse", Detail: map[string]any{"got": got, "unspaced_input_gives": want}})
		}
	}
}

// runTypedLiterals (C01): the same literal text with different type constraints in one grammar. With the
// default lexer and Unquote, `x` is an Ident with value x and `"x"` a String with value x: `"x":Ident` takes
// the first only, `"x":String` the second only, a plain `"x"` either.
func runTypedLiterals(w *hx.Worker) {
	cons := []string{"", "Ident", "String"}
	tag := func(c string) string {
		if c == "" {
			return `@"x"`
		}
		return `@"x":` + c
	}
	toks := []struct{ text, typ string }{{"x", "Ident"}, {`"x"`, "String"}}
	for _, ca := range cons {
		for _, cb := range cons {
			for _, cc := range cons {
				st := reflect.StructOf([]reflect.StructField{
					{Name: "A", Type: reflect.TypeOf(""), Tag: reflect.StructTag(tag(ca))},
					{Name: "B", Type: reflect.TypeOf(""), Tag: reflect.StructTag(tag(cb))},
					{Name: "C", Type: reflect.TypeOf(""), Tag: reflect.StructTag("( " + tag(cc) + " )?")},
				})
				p, err := participle.Build[any](participle.Unquote("String"), participle.Union[any](reflect.New(st).Elem().Interface()))
				name := fmt.Sprintf("typed literals :: A `%s`; B `%s`; C `( %s )?`", tag(ca), tag(cb), tag(cc))
				if err != nil {
					w.Violate(hx.Violation{Key: name, Class: "build-failed", Detail: map[string]any{"err": err.Error()}})
					continue
				}
				for _, t1 := range toks {
					for _, t2 := range toks {
						for _, t3 := range append(toks, struct{ text, typ string }{"", ""}) {
							in := strings.TrimSpace(t1.text + " " + t2.text + " " + t3.text)
							fits := func(c, typ string) bool { return c == "" || c == typ }
							want := fits(ca, t1.typ) && fits(cb, t2.typ) && (t3.text == "" || fits(cc, t3.typ))
							w.Count("evaluations", 1)
							var perr error
							pan, msg := hx.Guard(func() { _, perr = p.ParseString("", in) })
							if pan || (perr == nil) != want {
								w.Violate(hx.Violation{Key: name + fmt.Sprintf(" :: in=%q", in), Class: map[bool]string{true: "impl-rejects-model-accepts", false: "impl-accepts-model-rejects"}[want], Detail: map[string]any{"error": fmt.Sprint(perr), "panic": msg}})
							}
							w.DistinctS(fmt.Sprint("tl", ca, cb, cc, in, want))
						}
					}
				}
			}
		}
	}
}

// runPumped: long flat inputs through choice points (size-triggered behaviour such as flushing deferred
// captures after N pending ones must not exist): the AST still equals the reference derivation.
func runPumped(w *hx.Worker, prop string) {
	id := func() *g.Node { return g.Grp(gfam.CapMark(g.Ref("Ident")), '*') }
	bodies := []*g.Node{
		g.Alt(g.Seq(id(), g.Lit(";")), g.Seq(id(), g.Lit("1"))),
		g.Seq(g.Look(g.Seq(id(), g.Lit(";")), '!'), id(), g.Lit("1")),
		g.Seq(g.Grp(g.Seq(id(), g.Lit(";")), '?'), id(), g.Lit("1")),
		g.Seq(g.Grp(g.Alt(g.Seq(gfam.CapMark(g.Ref("Ident")), g.Lit(";")), gfam.CapMark(g.Ref("Ident"))), '*'), g.Lit("1")),
		g.Seq(g.Neg(g.Seq(id(), g.Lit(";"))), id(), g.Lit("1")),
	}
	for bi, b := range bodies {
		gr := &gfam.Grammar{Family: "pumped", Root: gfam.AssignOwn("G", b), Alphabet: "a", MaxLen: 0}
		for _, k := range []int{participle.MaxLookahead, -1, 1} {
			p, err, pan := buildParser(gr, g.TypeCache{}, k)
			if err != nil || pan != "" {
				w.Violate(hx.Violation{Key: caseKey(gr, "", "build"), Class: "build-failed", Detail: map[string]any{"err": fmt.Sprint(err), "panic": pan}})
				continue
			}
			for _, n := range []int{1, 2, 100, 1000, 1023, 1024, 1025, 2048, 4097} {
				in := strings.Repeat("a", n) + "1"
				cfg := cfgStr(k, false)
				key := fmt.Sprintf("%s :: in=a^%d 1 :: %s", gr.Key(), n, cfg)
				w.Count("evaluations", 1)
				toks, lerr := p.Lex("", strings.NewReader(in))
				if lerr != nil {
					continue
				}
				ir := implParse(p, in, false)
				env := g.NewEnv(toks, lexDef.Symbols(), nil, nil, k, false)
				out := env.Parse(gr.Root, true)
				w.Count("transitions", env.Steps)
				w.Count("traces_validated_against_impl", 1)
				if ir.panicked != "" {
					w.Violate(hx.Violation{Key: key, Class: "panic", Detail: map[string]any{"panic": ir.panicked}})
					continue
				}
				if ir.ok != out.Accept {
					w.Violate(hx.Violation{Key: key, Class: map[bool]string{true: "impl-accepts-model-rejects", false: "impl-rejects-model-accepts"}[ir.ok], Detail: map[string]any{"impl_error": fmt.Sprint(ir.err)}})
					continue
				}
				if out.Accept {
					if d := env.Compare(out.Tree, ir.v, g.CompareOpts{}); d != "" {
						if len(d) > 300 {
							d = d[:300]
						}
						w.Violate(hx.Violation{Key: key, Class: "ast-differs", Detail: map[string]any{"diff": d}})
						continue
					}
				}
				w.DistinctS(fmt.Sprintf("pumped%d/%d/%d/%v", bi, k, n, out.Accept))
			}
		}
	}
	_ = prop
}

// runLongBranch: a branch that fails only after more than MaxLookahead tokens; finite lookaheads beyond
// that and every "unlimited" value must agree.
type longG struct {
	A []string `( @"a"+ "b"`
	B []string `| @"a"+ "c" )`
}

// A user-implemented production that delegates to a second parser through ParseFromLexer: an overrun
// inside the delegated parse must be visible to the enclosing choice point exactly like a native one.
type delegSub struct {
	C string `( "a" "b" @"c"`
	D string `| "a" "b" @"d" )`
}

var delegParser *participle.Parser[delegSub] // set per lookahead by runDelegation (single goroutine)

type Deleg struct {
	Sub *delegSub
}

func (d *Deleg) Parse(lex *lexer.PeekingLexer) error {
	v, err := delegParser.ParseFromLexer(lex, participle.AllowTrailing(true))
	if err != nil {
		return err
	}
	d.Sub = v
	return nil
}

type delegOuter struct {
	X   *Deleg   `( @@`
	Raw []string `| @Ident+ )`
}

func runDelegation(w *hx.Worker) {
	chain := []int{0, 1, 2, 3, participle.MaxLookahead, -1}
	for _, in := range inputs("abcd", 4) {
		var prevOK bool
		var prevR string
		prevK := 0
		for i, k := range chain {
			var err error
			delegParser, err = participle.Build[delegSub](participle.Lexer(lexDef), participle.UseLookahead(k))
			if err != nil {
				w.Violate(hx.Violation{Key: "delegation build", Class: "build-failed", Detail: map[string]any{"err": err.Error()}})
				return
			}
			p, err := participle.Build[delegOuter](participle.Lexer(lexDef), participle.UseLookahead(k))
			if err != nil {
				w.Violate(hx.Violation{Key: "delegation build", Class: "build-failed", Detail: map[string]any{"err": err.Error()}})
				return
			}
			var v *delegOuter
			var perr error
			pan, _ := hx.Guard(func() { v, perr = p.ParseString("", in) })
			w.Count("evaluations", 1)
			ok := !pan && perr == nil
			r := ""
			if ok {
				r = g.RenderValue(reflect.ValueOf(v), false)
			}
			key := fmt.Sprintf("delegation :: Parseable production delegating to a second parser :: in=%q :: k=%d->%d", in, prevK, k)
			if i > 0 && prevOK {
				if !ok {
					w.Violate(hx.Violation{Key: key, Class: "success-lost-with-more-lookahead", Detail: map[string]any{"error": fmt.Sprint(perr)}})
				} else if r != prevR {
					w.Violate(hx.Violation{Key: key, Class: "ast-changed-with-more-lookahead", Detail: map[string]any{"before": prevR, "after": r}})
				}
			}
			prevOK, prevR, prevK = ok, r, k
			w.DistinctS("deleg" + in + r)
		}
	}
}

// ---- numeric fields at choice points: a conversion failure (value out of range for the field) is a failure
// of that alternative like any other; whether the parser may fall back depends on the lookahead, and a
// success at k is the same success at every larger k.
type numSmall struct {
	N int8 `@Int`
}
type numBig struct {
	N int64 `@Int`
}
type numWord struct {
	W string `@Ident`
}
type numVal interface{ numval() }

func (numSmall) numval() {}
func (numBig) numval()   {}
func (numWord) numval()  {}

type numG1 struct {
	Vals []numVal `@@*`
}
type numG2 struct {
	A []int8  `( @Int "a"`
	B []int64 `| @Int "b" )*`
}
type numG3 struct {
	A *int8   `( @Int ";" )?`
	B []int64 `@Int*`
	C string  `@Ident?`
}
type numG4 struct {
	A []uint8   `( @Int @Int`
	B []float32 `| @Int )*`
}

var numLexer = lexer.MustSimple([]lexer.SimpleRule{{Name: "Int", Pattern: `[0-9]+`}, {Name: "Ident", Pattern: `[a-z]+`}, {Name: "Punct", Pattern: `;`}, {Name: "Space", Pattern: ` +`}})

func numChain[T any](w *hx.Worker, name string, opts ...participle.Option) {
	numChainOver[T](w, name, []string{"7", "300", "70000000000", "a", "b", ";"}, 4, opts...)
}

func numChainOver[T any](w *hx.Worker, name string, toks []string, maxLen int, opts ...participle.Option) {
	ks := []int{0, 1, 2, 3, participle.MaxLookahead, -1}
	var ps []*participle.Parser[T]
	for _, k := range ks {
		p, err := participle.Build[T](append([]participle.Option{participle.Lexer(numLexer), participle.Elide("Space"), participle.UseLookahead(k)}, opts...)...)
		if err != nil {
			w.Violate(hx.Violation{Key: "numeric-alternatives " + name, Class: "build-failed", Detail: map[string]any{"err": err.Error()}})
			return
		}
		ps = append(ps, p)
	}
	var ins []string
	var rec func(prefix []string)
	rec = func(prefix []string) {
		ins = append(ins, strings.Join(prefix, " "))
		if len(prefix) == maxLen {
			return
		}
		for _, t := range toks {
			rec(append(append([]string{}, prefix...), t))
		}
	}
	rec(nil)
	for _, in := range ins {
		for _, at := range []bool{false, true} {
			var prev *T
			prevK := 0
			for ki, k := range ks {
				var v *T
				var err error
				pan, msg := hx.Guard(func() { v, err = ps[ki].ParseString("", in, participle.AllowTrailing(at)) })
				w.Count("evaluations", 1)
				if pan {
					w.Violate(hx.Violation{Key: fmt.Sprintf("numeric-alternatives %s :: in=%q :: k=%d trailing=%v", name, in, k, at), Class: "panic", Detail: map[string]any{"panic": msg}})
					break
				}
				if prev != nil {
					if err != nil {
						w.Violate(hx.Violation{Key: fmt.Sprintf("numeric-alternatives %s :: in=%q :: k=%d->%d trailing=%v", name, in, prevK, k, at), Class: "success-lost-with-more-lookahead", Detail: map[string]any{"error": err.Error()}})
						break
					}
					if !reflect.DeepEqual(prev, v) {
						a, _ := json.Marshal(prev)
						b, _ := json.Marshal(v)
						w.Violate(hx.Violation{Key: fmt.Sprintf("numeric-alternatives %s :: in=%q :: k=%d->%d trailing=%v", name, in, prevK, k, at), Class: "ast-changed-with-more-lookahead", Detail: map[string]any{"before": string(a), "after": string(b)}})
						break
					}
				}
				if err == nil {
					prev, prevK = v, k
					b, _ := json.Marshal(v)
					w.DistinctS(name + string(b))
				}
			}
		}
	}
}

// a user-implemented union member that consumes two tokens and then fails with a real error (not NextMatch)
type hePair struct{ A, B string }

func (p *hePair) Parse(lex *lexer.PeekingLexer) error {
	t := lex.Peek()
	if t.Value != "a" {
		return participle.NextMatch
	}
	p.A = lex.Next().Value
	t = lex.Peek()
	if t.Value != "b" {
		return participle.Errorf(t.Pos, "hePair: expected b after a")
	}
	p.B = lex.Next().Value
	if lex.Peek().Value == "x" {
		return participle.Errorf(lex.Peek().Pos, "hePair: x must not follow a pair")
	}
	return nil
}

type heWord struct {
	W string `@Ident`
}
type heItem interface{ heitem() }

func (hePair) heitem() {}
func (heWord) heitem() {}

type heDoc struct {
	Items []heItem `@@*`
	Rest  []string `( ";" @Ident* )?`
}

// a right-recursive list: one production nested per element
type rrList struct {
	Head string  `@Ident`
	Tail *rrList `@@?`
}

func runNumericAlternatives(w *hx.Worker) {
	numChainOver[heDoc](w, "Items []Item `@@*` with Item = Pair (Parseable: a b, hard error when x follows or b is missing) | Word; Rest `( \";\" @Ident* )?`",
		[]string{"a", "b", "x", "c", ";"}, 5, participle.Union[heItem](&hePair{}, heWord{}))
	// 12000 nested productions: what parses with little lookahead parses with more and with unlimited lookahead
	{
		in := strings.Repeat("a ", 12000)
		var prevOK *bool
		prevK := 0
		for _, k := range []int{1, 50, participle.MaxLookahead, -1, -7} {
			p, err := participle.Build[rrList](participle.Lexer(numLexer), participle.Elide("Space"), participle.UseLookahead(k))
			if err != nil {
				w.Violate(hx.Violation{Key: "deep right recursion build", Class: "build-failed", Detail: map[string]any{"err": err.Error()}})
				break
			}
			var perr error
			pan, msg := hx.Guard(func() { _, perr = p.ParseString("", in) })
			w.Count("evaluations", 1)
			ok := !pan && perr == nil
			if prevOK != nil && *prevOK && !ok {
				w.Violate(hx.Violation{Key: fmt.Sprintf("deep right recursion :: type L struct { Head string `@Ident`; Tail *L `@@?` } :: in=(a )^12000 :: k=%d->%d", prevK, k), Class: "success-lost-with-more-lookahead", Detail: map[string]any{"error": fmt.Sprint(perr), "panic": msg}})
			}
			okc := ok
			prevOK, prevK = &okc, k
			w.DistinctS(fmt.Sprintf("deep%d%v", k, ok))
		}
	}
	numChain[numG1](w, "Vals []Val `@@*` with Val = Small{int8} | Big{int64} | Word", participle.Union[numVal](numSmall{}, numBig{}, numWord{}))
	numChain[numG2](w, "A []int8 `( @Int \"a\"`; B []int64 `| @Int \"b\" )*`")
	numChain[numG3](w, "A *int8 `( @Int \";\" )?`; B []int64 `@Int*`; C string `@Ident?`")
	numChain[numG4](w, "A []uint8 `( @Int @Int`; B []float32 `| @Int )*`")
}

func runLongBranch(w *hx.Worker) {
	runDelegation(w)
	runNumericAlternatives(w)
	n := participle.MaxLookahead + 2
	in := strings.Repeat("a", n) + "c"
	var prevOK *bool
	prevK := 0
	for _, k := range []int{n + 1, 1 << 20, 1 << 33, -1, -2} {
		p, err := participle.Build[longG](participle.Lexer(lexDef), participle.UseLookahead(k))
		if err != nil {
			w.Violate(hx.Violation{Key: "long-branch build", Class: "build-failed", Detail: map[string]any{"err": err.Error()}})
			return
		}
		var perr error
		pan, msg := hx.Guard(func() { _, perr = p.ParseString("", in) })
		w.Count("evaluations", 1)
		ok := !pan && perr == nil
		if prevOK != nil && *prevOK && !ok {
			w.Violate(hx.Violation{Key: fmt.Sprintf("long-branch :: type G struct { A []string `( @\"a\"+ \"b\"`; B []string `| @\"a\"+ \"c\" )` } :: in=a^%d c :: k=%d->%d", n, prevK, k), Class: "success-lost-with-more-lookahead", Detail: map[string]any{"error": fmt.Sprint(perr), "panic": msg}})
		}
		okc := ok
		prevOK, prevK = &okc, k
		w.DistinctS(fmt.Sprintf("long%d%v", k, ok))
	}
}

func tierOf(c *hx.Ctx) gfam.Tier {
	if c.Quick() {
		return gfam.Quick
	}
	return gfam.Thorough
}

func plan(c *hx.Ctx) *hx.Plan {
	grs := families(c.Prop, tierOf(c))
	if f := c.Extra["family"]; f != "" {
		var sel []*gfam.Grammar
		for _, gr := range grs {
			if gr.Family == f {
				sel = append(sel, gr)
			}
		}
		grs = sel
	}
	famCount := map[string]int{}
	for _, gr := range grs {
		famCount[gr.Family]++
	}
	extra := 0
	if c.Prop == "C13" || c.Prop == "C01" || c.Prop == "C02" || c.Prop == "C10" {
		extra = 1
	}
	return &hx.Plan{
		N: len(grs) + extra,
		Job: func(w *hx.Worker, i int) {
			tc, _ := w.Local("tc", func() any { return g.TypeCache{} }).(g.TypeCache)
			if c.Prop == "C13" && i == len(grs) {
				runLongBranch(w)
				return
			}
			if (c.Prop == "C01" || c.Prop == "C02") && i == len(grs) {
				runPumped(w, c.Prop)
				if c.Prop == "C01" {
					runTypedLiterals(w)
				}
				return
			}
			if c.Prop == "C10" && i == len(grs) {
				runSharedOptions(w)
				return
			}
			(&explorer{prop: c.Prop, w: w, tc: tc, extendedChain: i%3 == 0}).runGrammar(grs[i], nil)
		},
		Describe: func(i int) string {
			if i >= len(grs) {
				return "long-branch / pumped / shared options"
			}
			return grs[i].Key()
		},
		Rule:   "every grammar of the listed families (all bracketings of sequence/alternation over the leaf sets, every group modifier on every composite operand, field-kind schemes) built as a real Go struct type via reflect.StructOf and participle.Build; every token string over the family's alphabet up to its length bound; every lookahead in {0,1,2,3,MaxLookahead,unlimited} x AllowTrailing {off,on}. evaluations = real Parse calls; each is compared with the reference interpreter (C01/C02/C10/C11) or with the same input at the next smaller lookahead (C13). distinct_nontrivial = distinct accepted ASTs (rendered). states = evaluations, transitions = reference-interpreter node evaluations",
		Bounds: map[string]any{"families": famCount, "lookaheads": lookaheads, "allow_trailing": []bool{false, true}},
		Assume: []string{
			"token stream handed to the reference semantics is the output of the real Parser.Lex",
			"grammars with nullable alternatives / repetition bodies / union members, nested captures, and cases in which the library's own 'did not progress' diagnostic applies are out of domain (counted)",
			"root is wrapped in a single-member union (Build[any](Union[any](root))), which the model mirrors as one extra choice point",
		},
	}
}

func replay(c *hx.Ctx, key string) []hx.Violation {
	if strings.HasPrefix(key, "pumped ") {
		w := hx.NewReplayWorker()
		runPumped(w, c.Prop)
		var out []hx.Violation
		for _, v := range w.Violations() {
			if v.Key == key {
				out = append(out, v)
			}
		}
		return out
	}
	if strings.HasPrefix(key, "long-branch") {
		w := hx.NewReplayWorker()
		runLongBranch(w)
		return w.Violations()
	}
	parts := strings.Split(key, " :: ")
	if len(parts) < 3 {
		return []hx.Violation{{Key: key, Class: "bad-replay-key"}}
	}
	fam, src := parts[0], parts[1]
	in, _ := strconv.Unquote(strings.TrimPrefix(parts[2], "in="))
	w := hx.NewReplayWorker()
	for _, t := range []gfam.Tier{gfam.Quick, gfam.Thorough} {
		for _, gr := range families(c.Prop, t) {
			if gr.Family == fam && gr.Root.Source() == src {
				(&explorer{prop: c.Prop, w: w, tc: g.TypeCache{}}).runGrammar(gr, &in)
				return w.Violations()
			}
		}
	}
	return []hx.Violation{{Key: key, Class: "grammar-not-found-in-enumeration"}}
}

func main() {
	g.IdentType = lexDef.Symbols()["Ident"]
	hx.Main(&hx.Spec{Engine: "gramx", JobTimeout: 90 * time.Second, Levels: map[string]string{
		"C01": "model_checking", "C02": "model_checking", "C10": "model_checking", "C11": "model_checking", "C13": "exploration",
	}, Plan: plan, Replay: replay})
}
