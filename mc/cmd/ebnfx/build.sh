#!/bin/bash
# Builds the C14 explorer: emits statically typed grammars (named Go types are needed for
# Parser.String()), compiles them against the repository's current working tree.
set -u
cd /verif/mc
BIN=${VERIF_BIN:-/verif/build/bin}
MODFLAG=${VERIF_MODFLAG:-}
TIER=${VERIF_TIER:-quick}
mkdir -p /verif/build "$BIN"
exec 8>/verif/build/gengram.lock
flock 8
rm -rf /verif/mc/gen/grammars; mkdir -p /verif/mc/gen/grammars
go build $MODFLAG -o "$BIN/ebnfxprep" ./cmd/ebnfxprep || exit 2
"$BIN/ebnfxprep" /verif/mc/gen "$TIER" || exit 2
go build $MODFLAG -o "$BIN/ebnfx" ./cmd/ebnfx || exit 2
