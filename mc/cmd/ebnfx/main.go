// ebnfx: Parser.String() is valid, complete EBNF that survives a round trip (property C14).
package main

import (
	"fmt"
	"reflect"
	"sort"
	"strconv"
	"strings"
	"time"
	"unicode"
	"unicode/utf8"

	"github.com/alecthomas/participle/v2"
	"github.com/alecthomas/participle/v2/ebnf"
	"github.com/alecthomas/participle/v2/lexer"

	_ "verif/mc/gen/grammars"
	"verif/mc/internal/ebnffam"
	g "verif/mc/internal/gmodel"
	"verif/mc/internal/gramreg"
	"verif/mc/internal/hx"
)

func upperFirst(s string) string {
	r, n := utf8.DecodeRuneInString(s)
	return string(unicode.ToUpper(r)) + s[n:]
}

// expected multiset of leaves/operators of the model grammar (every production counted once).
func expected(root *g.Prod) (map[string]int, []string) {
	ms := map[string]int{}
	var order []string
	seen := map[*g.Prod]bool{}
	var recProd func(p *g.Prod)
	var recNode func(n *g.Node)
	recNode = func(n *g.Node) {
		if n == nil {
			return
		}
		switch n.K {
		case g.KLit:
			ms["lit:"+strconv.Quote(n.Lit)]++
		case g.KRef:
			ms["tok:"+strings.ToLower(n.Typ)]++
		case g.KNeg:
			ms["op:~"]++
		case g.KLook:
			ms["op:?"+string(n.Mode)]++
		case g.KGroup:
			if n.Mode != 0 {
				ms["op:"+string(n.Mode)]++
			}
		case g.KSub:
			ms["prod:"+upperFirst(n.Prod.Name)]++
			recProd(n.Prod)
		}
		for _, k := range n.Kids {
			recNode(k)
		}
		recNode(n.X)
	}
	recProd = func(p *g.Prod) {
		if seen[p] {
			return
		}
		seen[p] = true
		order = append(order, upperFirst(p.Name))
		if p.IsUnion() {
			for _, m := range p.Members {
				ms["prod:"+upperFirst(m.Name)]++
				recProd(m)
			}
			return
		}
		recNode(p.Body)
	}
	recProd(root)
	return ms, order
}

func actual(e *ebnf.EBNF) (ms map[string]int, defs map[string]int, refs map[string]bool) {
	ms = map[string]int{}
	defs = map[string]int{}
	refs = map[string]bool{}
	var expr func(x *ebnf.Expression)
	expr = func(x *ebnf.Expression) {
		for _, s := range x.Alternatives {
			for _, t := range s.Terms {
				if t.Negation {
					ms["op:~"]++
				}
				switch {
				case t.Name != "":
					ms["prod:"+t.Name]++
					refs[t.Name] = true
				case t.Literal != "":
					ms["lit:"+t.Literal]++
				case t.Token != "":
					ms["tok:"+t.Token]++
				case t.Group != nil:
					if t.Group.Lookahead != ebnf.LookaheadAssertionNone {
						ms["op:?"+string(rune(t.Group.Lookahead))]++
					}
					expr(t.Group.Expr)
				}
				if t.Repetition != "" {
					ms["op:"+t.Repetition]++
				}
			}
		}
	}
	for _, p := range e.Productions {
		defs[p.Production]++
		expr(p.Expression)
	}
	return
}

func msDiff(want, got map[string]int) string {
	var keys []string
	for k := range want {
		keys = append(keys, k)
	}
	for k := range got {
		if _, ok := want[k]; !ok {
			keys = append(keys, k)
		}
	}
	sort.Strings(keys)
	var d []string
	for _, k := range keys {
		if want[k] != got[k] {
			d = append(d, fmt.Sprintf("%s: grammar has %d, EBNF has %d", k, want[k], got[k]))
		}
	}
	return strings.Join(d, "; ")
}

// checkText applies the model-free part of the oracle to an EBNF text.
func checkText(text string, rootName string) (*ebnf.EBNF, string, string) {
	var e1 *ebnf.EBNF
	var err error
	pan, msg := hx.Guard(func() { e1, err = ebnf.ParseString(text) })
	if pan {
		return nil, "ebnf-parse-panics", msg
	}
	if err != nil {
		return nil, "ebnf-does-not-parse", err.Error()
	}
	if len(e1.Productions) == 0 || (rootName != "" && e1.Productions[0].Production != rootName) {
		first := ""
		if len(e1.Productions) > 0 {
			first = e1.Productions[0].Production
		}
		return e1, "root-production-not-first", fmt.Sprintf("first production %q, root %q", first, rootName)
	}
	_, defs, refs := actual(e1)
	for n, c := range defs {
		if c != 1 {
			return e1, "production-defined-more-than-once", n
		}
	}
	for r := range refs {
		if defs[r] != 1 {
			return e1, "referenced-production-not-defined", r
		}
	}
	// print -> parse -> equal tree
	var printed string
	var e2 *ebnf.EBNF
	pan, msg = hx.Guard(func() {
		printed = e1.String()
		e2, err = ebnf.ParseString(printed)
	})
	if pan {
		return e1, "ebnf-print-panics", msg
	}
	if err != nil {
		return e1, "printed-ebnf-does-not-parse", err.Error() + " :: " + printed
	}
	if !reflect.DeepEqual(e1, e2) {
		return e1, "ebnf-tree-changes-on-round-trip", "printed: " + printed
	}
	return e1, "", ""
}

func runItem(w *hx.Worker, it ebnffam.Item) {
	key := it.Family + " :: " + it.Root.Source()
	w.Case(func() string { return key })
	w.Count("evaluations", 1)
	w.Count("states", 1)
	entry, ok := gramreg.Entries[it.ID]
	if !ok {
		w.Violate(hx.Violation{Key: key, Class: "harness-grammar-missing", Detail: map[string]any{"id": it.ID}})
		return
	}
	var text string
	var err error
	pan, msg := hx.Guard(func() { text, err = entry() })
	if pan {
		w.Violate(hx.Violation{Key: key, Class: "String-panics", Detail: map[string]any{"panic": msg}})
		return
	}
	if he, ok := err.(*gramreg.HistoryError); ok {
		w.Violate(hx.Violation{Key: key, Class: "String-depends-on-history", Detail: map[string]any{"fresh_parser": he.Fresh, "same_parser_after_parses_and_formatted_errors": he.AfterUse, "first_String_of_a_used_parser": he.FirstAfterUse}})
		return
	}
	if err != nil {
		w.Count("grammars_not_built", 1)
		w.Note("not_built_example", key+" :: "+err.Error())
		return
	}
	e1, cls, detail := checkText(text, upperFirst(it.Root.Name))
	if cls != "" {
		w.Violate(hx.Violation{Key: key, Class: cls, Detail: map[string]any{"ebnf": text, "detail": detail}})
		return
	}
	want, order := expected(it.Root)
	got, defs, _ := actual(e1)
	w.Count("transitions", int64(len(got)))
	w.Count("traces_validated_against_impl", 1)
	if d := msDiff(want, got); d != "" {
		w.Violate(hx.Violation{Key: key, Class: "ebnf-incomplete-or-altered", Detail: map[string]any{"ebnf": text, "diff": d}})
		return
	}
	for _, n := range order {
		if defs[n] != 1 {
			w.Violate(hx.Violation{Key: key, Class: "production-missing", Detail: map[string]any{"ebnf": text, "production": n}})
			return
		}
	}
	w.DistinctS(text[strings.Index(text, "=")+1:])
	if len(text) > 30 {
		w.Sample(map[string]any{"grammar": it.Root.Source(), "ebnf": text})
	}
}

// ---- static special cases (anonymous / embedded struct types, unions, recursion, Parseable)

type Value interface{ value() }
type StrV struct {
	S string `@Ident`
}
type NumV struct {
	N string `@Int`
}

func (StrV) value() {}
func (NumV) value() {}

type UnionRoot struct {
	Vals []Value `@@ ( ";" @@ )*`
}
type RecExpr struct {
	Head string   `@Ident`
	Tail *RecExpr `( ";" @@ )?`
}
type MutX struct {
	Y *MutY `"a" @@`
}
type MutY struct {
	X *MutX  `@@`
	V string `| @Ident`
}
type AnonInner struct {
	Inner struct {
		V string `@Ident`
	} `@@`
	Other *struct {
		W string `@Int`
	} `@@?`
}

// two anonymous struct types that differ only in their grammar tags
type AnonTwins struct {
	A struct {
		Name string `@Ident`
	} `@@ ";"`
	B struct {
		Name string `@Int`
	} `@@`
	C []struct {
		Name string `@Ident @Ident`
	} `@@*`
}
type EmbBase struct {
	Name string `@Ident`
}
type EmbRoot struct {
	EmbBase
	Rest []string `( ";" @Ident )*`
}

// a production that is referenced only from inside lookahead groups
type LookKw struct {
	K string `@"if" | @"for"`
}
type LookOnly struct {
	Guard *LookKw `(?= @@ )`
	Not   *LookKw `(?! @@ @@ )`
	V     string  `@Ident`
}

// a type whose name starts with a non-ASCII letter
type élément struct {
	V string `@Ident`
}
type Ärger struct {
	E []*élément `@@*`
}
type lowerRoot struct {
	V string `@Ident "x"`
}
type Quoted struct {
	A string `@"\"" | @"\\" | "a\nb" | "'" `
	B string `| @'x' ~"y"* (?= "z" ) (?! "w" "v" )`
}

func statics() []struct {
	name string
	root string
	fn   func() (string, error)
} {
	mk := func(f func() (fmt.Stringer, error)) func() (string, error) {
		return func() (string, error) {
			p, err := f()
			if err != nil {
				return "", err
			}
			return p.String(), nil
		}
	}
	// gramreg.Describe also checks that String() is the same after parses / formatted errors and when it
	// is first called on a parser that has already been used
	return []struct {
		name string
		root string
		fn   func() (string, error)
	}{
		{"union", "UnionRoot", func() (string, error) {
			return gramreg.Describe[UnionRoot](participle.Union[Value](StrV{}, NumV{}))
		}},
		{"union as the root type", "Value", func() (string, error) {
			return gramreg.Describe[Value](participle.Union[Value](StrV{}, NumV{}))
		}},
		{"recursive", "RecExpr", func() (string, error) { return gramreg.Describe[RecExpr]() }},
		{"mutual", "MutX", func() (string, error) { return gramreg.Describe[MutX]() }},
		{"anonymous", "AnonInner", func() (string, error) { return gramreg.Describe[AnonInner]() }},
		{"anonymous twins", "AnonTwins", func() (string, error) { return gramreg.Describe[AnonTwins]() }},
		{"embedded", "EmbRoot", func() (string, error) { return gramreg.Describe[EmbRoot]() }},
		{"lower-case root", "LowerRoot", func() (string, error) { return gramreg.Describe[lowerRoot]() }},
		{"quoted", "Quoted", func() (string, error) { return gramreg.Describe[Quoted]() }},
		{"production referenced only inside lookahead groups", "LookOnly", func() (string, error) { return gramreg.Describe[LookOnly]() }},
		{"type names that start with a non-ASCII letter", "Ärger", func() (string, error) { return gramreg.Describe[Ärger]() }},
		{"default lexer", "RecExpr", mk(func() (fmt.Stringer, error) { return participle.Build[RecExpr]() })},
	}
}

// runChains: grammars with many productions (a chain P0 .. Pn-1, each with an opening and a closing
// literal of its own around the reference to the next): every production and every literal is printed once.
func runChains(w *hx.Worker) {
	strT := reflect.TypeOf("")
	for _, n := range []int{2, 15, 16, 17, 18, 31, 32, 33, 34, 40, 65, 70, 130} {
		key := fmt.Sprintf("static :: chain of %d productions", n)
		w.Count("evaluations", 1)
		w.Count("states", 1)
		var t reflect.Type
		for i := n - 1; i >= 0; i-- {
			fs := []reflect.StructField{{Name: "K", Type: strT, Tag: reflect.StructTag(fmt.Sprintf(`@"k%d"`, i))}}
			if t != nil {
				fs = append(fs, reflect.StructField{Name: "Next", Type: reflect.PtrTo(t), Tag: `@@`})
			}
			fs = append(fs, reflect.StructField{Name: "E", Type: strT, Tag: reflect.StructTag(fmt.Sprintf(`@"e%d"`, i))})
			t = reflect.StructOf(fs)
		}
		var text string
		var err error
		pan, msg := hx.Guard(func() {
			var p *participle.Parser[any]
			p, err = participle.Build[any](participle.Lexer(gramreg.Lexer), participle.Union[any](reflect.New(t).Elem().Interface()))
			if err == nil {
				text = p.String()
			}
		})
		if pan || err != nil {
			w.Violate(hx.Violation{Key: key, Class: "String-panics", Detail: map[string]any{"panic": msg, "err": fmt.Sprint(err)}})
			continue
		}
		e1, cls, detail := checkText(text, "")
		if cls != "" {
			w.Violate(hx.Violation{Key: key, Class: cls, Detail: map[string]any{"ebnf": text, "detail": detail}})
			continue
		}
		got, defs, _ := actual(e1)
		bad := ""
		for i := 0; i < n && bad == ""; i++ {
			for _, l := range []string{fmt.Sprintf(`lit:"k%d"`, i), fmt.Sprintf(`lit:"e%d"`, i)} {
				if got[l] != 1 {
					bad = fmt.Sprintf("%s occurs %d times in the EBNF, once in the grammar", l, got[l])
				}
			}
		}
		if bad == "" && len(defs) < n {
			bad = fmt.Sprintf("%d productions defined, the grammar has %d struct productions", len(defs), n)
		}
		if bad != "" {
			w.Violate(hx.Violation{Key: key, Class: "ebnf-incomplete-or-altered", Detail: map[string]any{"ebnf": text, "diff": bad}})
			continue
		}
		w.DistinctS(fmt.Sprint(n, len(text)))
	}
}

// runDerived: ParserForProduction gives a parser for a sub-production; it prints that production's grammar
// and leaves the original parser's String() as it was.
func runDerived(w *hx.Worker) {
	key := "static :: ParserForProduction"
	w.Count("evaluations", 1)
	var before, after, sub, sub2 string
	pan, msg := hx.Guard(func() {
		p, err := participle.Build[UnionRoot](participle.Lexer(gramreg.Lexer), participle.Union[Value](StrV{}, NumV{}))
		if err != nil {
			panic(err)
		}
		before = p.String()
		d, err := participle.ParserForProduction[StrV](p)
		if err != nil {
			panic(err)
		}
		sub = d.String()
		after = p.String()
		d2, err := participle.ParserForProduction[NumV](p)
		if err != nil {
			panic(err)
		}
		sub2 = d2.String()
		if p.String() != after || d.String() != sub {
			after = "String() of the original / first derived parser changed after a second ParserForProduction: " + p.String() + " / " + d.String()
		}
	})
	if pan {
		w.Violate(hx.Violation{Key: key, Class: "String-panics", Detail: map[string]any{"panic": msg}})
		return
	}
	if before != after {
		w.Violate(hx.Violation{Key: key, Class: "String-depends-on-history", Detail: map[string]any{"before_ParserForProduction": before, "after": after}})
		return
	}
	for _, t := range []string{before, sub, sub2} {
		if _, cls, detail := checkText(t, ""); cls != "" {
			w.Violate(hx.Violation{Key: key, Class: cls, Detail: map[string]any{"ebnf": t, "detail": detail}})
			return
		}
	}
	if !strings.Contains(before, "UnionRoot") || !strings.Contains(sub, "StrV") || !strings.Contains(sub2, "NumV") {
		w.Violate(hx.Violation{Key: key, Class: "ebnf-incomplete-or-altered", Detail: map[string]any{"original": before, "derived_StrV": sub, "derived_NumV": sub2}})
		return
	}
	w.DistinctS(before + sub + sub2)
}

var _ = lexer.EOF

// two parsers over the SAME root type with different Union members: each prints its own grammar
func runTwins(w *hx.Worker) {
	w.Count("evaluations", 1)
	lx := participle.Lexer(gramreg.Lexer)
	key := "static :: same root type built twice with different unions"
	var a, b string
	pan, msg := hx.Guard(func() {
		p1, err := participle.Build[UnionRoot](lx, participle.Union[Value](StrV{}, NumV{}))
		if err != nil {
			panic(err)
		}
		a = p1.String()
		p2, err := participle.Build[UnionRoot](lx, participle.Union[Value](NumV{}))
		if err != nil {
			panic(err)
		}
		b = p2.String()
		_ = p1.String()
	})
	if pan {
		w.Violate(hx.Violation{Key: key, Class: "String-panics", Detail: map[string]any{"panic": msg}})
		return
	}
	if !strings.Contains(a, "StrV") || strings.Contains(b, "StrV") || !strings.Contains(b, "NumV") {
		w.Violate(hx.Violation{Key: key, Class: "ebnf-incomplete-or-altered", Detail: map[string]any{"first": a, "second": b}})
		return
	}
	for _, t := range []string{a, b} {
		if _, cls, detail := checkText(t, "UnionRoot"); cls != "" {
			w.Violate(hx.Violation{Key: key, Class: cls, Detail: map[string]any{"ebnf": t, "detail": detail}})
		}
	}
	w.DistinctS(a + b)
}

func runStatics(w *hx.Worker) {
	runTwins(w)
	runChains(w)
	runDerived(w)
	for _, s := range statics() {
		key := "static :: " + s.name
		w.Count("evaluations", 1)
		w.Count("states", 1)
		var text string
		var err error
		pan, msg := hx.Guard(func() { text, err = s.fn() })
		if pan {
			w.Violate(hx.Violation{Key: key, Class: "String-panics", Detail: map[string]any{"panic": msg}})
			continue
		}
		if he, ok := err.(*gramreg.HistoryError); ok {
			w.Violate(hx.Violation{Key: key, Class: "String-depends-on-history", Detail: map[string]any{"fresh_parser": he.Fresh, "same_parser_after_parses_and_formatted_errors": he.AfterUse, "first_String_of_a_used_parser": he.FirstAfterUse}})
			continue
		}
		if err != nil {
			w.Violate(hx.Violation{Key: key, Class: "static-grammar-does-not-build", Detail: map[string]any{"error": err.Error()}})
			continue
		}
		_, cls, detail := checkText(text, s.root)
		if cls != "" {
			w.Violate(hx.Violation{Key: key, Class: cls, Detail: map[string]any{"ebnf": text, "detail": detail}})
			continue
		}
		w.DistinctS(text)
		w.Sample(map[string]any{"grammar": s.name, "ebnf": text})
	}
}

func plan(c *hx.Ctx) *hx.Plan {
	items := ebnffam.Items(c.Quick())
	fam := map[string]int{}
	for _, it := range items {
		fam[it.Family]++
	}
	return &hx.Plan{
		N: len(items) + 1,
		Job: func(w *hx.Worker, i int) {
			if i == len(items) {
				runStatics(w)
				return
			}
			runItem(w, items[i])
		},
		Describe: func(i int) string {
			if i == len(items) {
				return "statics"
			}
			return items[i].Family + " :: " + items[i].Root.Source()
		},
		Rule:   "statically typed grammars emitted at check time (named Go types): operator-nesting family (every stacking of two modifiers through a group over 6 atoms, [x]/{x} spellings), ~/(?=)/(?!) applied to literals, references, groups and modified terms and stacked on each other, literals needing escapes and typed literals, sub-productions (nested, referenced twice), a slice of the core family; plus hand-written unions, recursion, mutual recursion, anonymous and embedded struct types, chains of 2..130 productions, parsers derived with ParserForProduction. String() is taken from a fresh parser, again after parses and formatted errors, and first-time from a second, already used parser: all three are equal. For each: Parser.String() under recover; ebnf.ParseString succeeds; root first; every referenced production defined exactly once; the multiset of literals / token references / production references / operators of the parsed EBNF equals the grammar's (reference: the model AST); String() of the parsed EBNF re-parses to a deep-equal tree. evaluations = grammars",
		Bounds: map[string]any{"families": fam, "statics": len(statics())},
		Assume: []string{"completeness is judged as multiset equality of leaves and operators, not tree isomorphism (the statement does not demand grouping fidelity)"},
	}
}

func replay(c *hx.Ctx, key string) []hx.Violation {
	w := hx.NewReplayWorker()
	if strings.HasPrefix(key, "static :: ") {
		runStatics(w)
	} else {
		for _, it := range ebnffam.Items(c.Quick()) {
			if it.Family+" :: "+it.Root.Source() == key {
				runItem(w, it)
			}
		}
	}
	var out []hx.Violation
	for _, v := range w.Violations() {
		if v.Key == key {
			out = append(out, v)
		}
	}
	return out
}

func main() {
	// the grammars are also *used* (gramreg.Describe parses a few inputs before asking for String() again);
	// some of them repeat a body that matches nothing, which the library stops after MaxIterations rounds
	participle.MaxIterations = 2000
	hx.Main(&hx.Spec{Engine: "ebnfx", JobTimeout: 60 * time.Second, Levels: map[string]string{"C14": "model_checking"}, Plan: plan, Replay: replay})
}
