// genxprep prepares the generated-lexer differential: "emit" writes the batch list for the real
// generator, "registry" writes the registration files for whatever generated sources exist.
package main

import (
	"encoding/json"
	"fmt"
	"os"
	"path/filepath"
	"sort"
	"strings"

	"github.com/alecthomas/participle/v2/lexer"

	"verif/mc/internal/genfam"
)

const nPkgs = 16

func goName(id string) string { return "D" + id }

func main() {
	if len(os.Args) < 3 {
		fmt.Fprintln(os.Stderr, "usage: genxprep emit|registry <gen dir> [quick|thorough]")
		os.Exit(2)
	}
	dir := os.Args[2]
	switch os.Args[1] {
	case "emit":
		quick := len(os.Args) < 4 || os.Args[3] != "thorough"
		type item struct {
			ID    string          `json:"id"`
			Name  string          `json:"name"`
			Pkg   string          `json:"pkg"`
			Out   string          `json:"out"`
			Rules json.RawMessage `json:"rules"`
		}
		var items []item
		skipped := 0
		for i, it := range genfam.Items(quick) {
			var def *lexer.StatefulDefinition
			var err error
			func() {
				defer func() {
					if r := recover(); r != nil {
						err = fmt.Errorf("lexer.New panicked: %v", r) // the constructor panics on some inconsistent rule maps
					}
				}()
				def, err = lexer.New(it.Def.ToRules())
			}()
			if err != nil {
				skipped++
				continue
			}
			b, err := json.Marshal(def) // README: serialize the stateful lexer definition with json.Marshal
			if err != nil {
				skipped++
				continue
			}
			pkg := fmt.Sprintf("p%02d", i%nPkgs)
			items = append(items, item{ID: it.ID, Name: goName(it.ID), Pkg: pkg, Out: filepath.Join(dir, "lexers", pkg, strings.ToLower(it.ID)+".go"), Rules: b})
		}
		b, _ := json.Marshal(items)
		if err := os.WriteFile(filepath.Join(dir, "defs.json"), b, 0o644); err != nil {
			panic(err)
		}
		fmt.Printf("genxprep: %d definitions (%d rejected by lexer.New)\n", len(items), skipped)
	case "registry":
		var pkgs []string
		ents, _ := os.ReadDir(filepath.Join(dir, "lexers"))
		for _, e := range ents {
			if !e.IsDir() {
				continue
			}
			files, _ := filepath.Glob(filepath.Join(dir, "lexers", e.Name(), "op*.go"))
			more, _ := filepath.Glob(filepath.Join(dir, "lexers", e.Name(), "*.go"))
			_ = files
			var ids []string
			for _, f := range more {
				base := strings.TrimSuffix(filepath.Base(f), ".go")
				if base == "reg" {
					continue
				}
				ids = append(ids, base)
			}
			if len(ids) == 0 {
				continue
			}
			sort.Strings(ids)
			var sb strings.Builder
			fmt.Fprintf(&sb, "package %s\n\nimport \"verif/mc/internal/genreg\"\n\nfunc init() {\n", e.Name())
			for _, id := range ids {
				// file names are lower-cased ids; ids are lower-case already
				fmt.Fprintf(&sb, "\tgenreg.Register(%q, %sLexer)\n", id, goName(id))
			}
			sb.WriteString("}\n")
			if err := os.WriteFile(filepath.Join(dir, "lexers", e.Name(), "reg.go"), []byte(sb.String()), 0o644); err != nil {
				panic(err)
			}
			pkgs = append(pkgs, e.Name())
		}
		var sb strings.Builder
		sb.WriteString("// Package lexers links every generated lexer package.\npackage lexers\n\nimport (\n")
		for _, p := range pkgs {
			fmt.Fprintf(&sb, "\t_ \"verif/mc/gen/lexers/%s\"\n", p)
		}
		sb.WriteString(")\n")
		if err := os.WriteFile(filepath.Join(dir, "lexers", "all.go"), []byte(sb.String()), 0o644); err != nil {
			panic(err)
		}
	}
}
