// schedrules prints the JSON of the rule map that the CLI turns into the generated lexer of the C09 check.
package main

import (
	"encoding/json"
	"os"

	"github.com/alecthomas/participle/v2/lexer"

	"verif/mc/internal/scen"
)

func main() {
	b, err := json.Marshal(lexer.MustStateful(scen.QuoteRules()))
	if err != nil {
		panic(err)
	}
	os.Stdout.Write(b)
}
