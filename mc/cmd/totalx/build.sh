#!/bin/bash
# Builds the C06 explorer and one test binary per repository example: the example packages are
# compiled IN PLACE from the current working tree with three overlaid _test.go files (oracle, driver,
# per-example stub); nothing is written into the repository.
set -u
cd /verif/mc
REPO=${VERIF_REPO:-/repo}
BIN=${VERIF_BIN:-/verif/build/bin}
MODFLAG=${VERIF_MODFLAG:-}
TAG=$(echo "$REPO" | md5sum | cut -c1-8)
OV=/verif/build/tmp/exoverlay-$TAG
mkdir -p "$BIN" "$OV"
rm -f "$BIN"/ex_*.test
python3 - "$REPO" "$OV" <<'EOP'
import json,sys,os
repo,ov=sys.argv[1],sys.argv[2]
cfg=json.load(open('/verif/mc/cmd/totalx/examples.json'))
rep={}
oracle=open('/verif/mc/cmd/totalx/oracle.go').read()
common=open('/verif/mc/overlay/verif_common_test.go.txt').read()
def gostr(s): return json.dumps(s, ensure_ascii=False).replace('\\u00e9','é')
for name,c in cfg.items():
    d=os.path.join(repo,'_examples',name)
    if not os.path.isdir(d): continue
    od=os.path.join(ov,name); os.makedirs(od,exist_ok=True)
    open(os.path.join(od,'oracle.go'),'w').write(oracle)
    open(os.path.join(od,'common.go'),'w').write(common)
    seeds=', '.join(json.dumps(s) for s in c['seeds'])
    nest=', '.join(json.dumps(s) for s in c.get('nest',[]))
    stub='package main\n\nimport "testing"\n\nfunc TestVerifDrive(t *testing.T) {\n\tverifDrive(t, %s, verifCfg{Seeds: []string{%s}, SampleFile: %s, Nest: []string{%s}})\n}\n' % (c['parser'], seeds, json.dumps(c.get('sample','')), nest)
    open(os.path.join(od,'stub.go'),'w').write(stub)
    rep[os.path.join(d,'verif_oracle_test.go')]=os.path.join(od,'oracle.go')
    rep[os.path.join(d,'verif_common_test.go')]=os.path.join(od,'common.go')
    rep[os.path.join(d,'verif_stub_test.go')]=os.path.join(od,'stub.go')
json.dump({'Replace':rep},open(os.path.join(ov,'overlay.json'),'w'))
print(' '.join(n for n in cfg if os.path.isdir(os.path.join(repo,'_examples',n))))
EOP
names=$(python3 -c "import json,os,sys; print(' '.join(n for n in json.load(open('/verif/mc/cmd/totalx/examples.json')) if os.path.isdir(os.path.join('$REPO','_examples',n))))")
fail=0
for n in $names; do
  (cd "$REPO/_examples" && go test -c -vet=off -overlay "$OV/overlay.json" -o "$BIN/ex_$n.test" ./$n) > "$OV/$n.log" 2>&1 &
done
wait
for n in $names; do
  if [ ! -x "$BIN/ex_$n.test" ]; then echo "example $n does not compile with the driver:" >&2; tail -5 "$OV/$n.log" >&2; fail=1; fi
done
[ $fail = 0 ] || exit 2
go build $MODFLAG -o "$BIN/totalx" ./cmd/totalx || exit 2
