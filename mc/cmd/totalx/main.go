// totalx: parsing any input returns a value or a well-formed, located error (property C06).
package main

import (
	"bufio"
	"bytes"
	"encoding/json"
	"fmt"
	"os"
	"os/exec"
	"path/filepath"
	"reflect"
	"runtime/debug"
	"sort"
	"strings"
	"time"

	"github.com/alecthomas/participle/v2"
	"github.com/alecthomas/participle/v2/lexer"

	"verif/mc/internal/gfam"
	g "verif/mc/internal/gmodel"
	"verif/mc/internal/hx"
	"verif/mc/internal/lexfam"
)

var lexDef = lexer.MustSimple([]lexer.SimpleRule{
	{Name: "Ident", Pattern: `[a-zA-Z]`},
	{Name: "Int", Pattern: `[0-9]`},
	{Name: "Punct", Pattern: `;`},
	{Name: "Space", Pattern: ` `},
	{Name: "Comment", Pattern: `#`},
	{Name: "NL", Pattern: `\n`},
})

var byteAlphabet = []string{"a", "b", "1", ";", " ", "#", "\n", "\"", "é", "\xff", "$"}

type job struct {
	kind string
	gr   *gfam.Grammar
	ex   string
}

func thinGr(in []*gfam.Grammar, every int) []*gfam.Grammar {
	var out []*gfam.Grammar
	n := 0
	for _, gr := range in {
		if gr.Root.OutOfDomain() != "" || gr.Root.Body.Nullable() {
			continue
		}
		n++
		if n%every == 0 {
			out = append(out, gr)
		}
	}
	return out
}

func grammarJobs(quick bool) []job {
	t := gfam.Thorough
	every := 400
	if quick {
		t = gfam.Quick
		every = 90
	}
	var grs []*gfam.Grammar
	grs = append(grs, thinGr(gfam.Core(t), every)...)
	grs = append(grs, thinGr(gfam.NegLook(t), every)...)
	grs = append(grs, thinGr(gfam.SubProd(t), every)...)
	grs = append(grs, thinGr(gfam.Kinds(t), every)...)
	grs = append(grs, thinGr(gfam.NegLookDeep(t), every)...)
	grs = append(grs, thinGr(gfam.ElidedExplicit(t), every/2+1)...)
	grs = append(grs, thinGr(gfam.EOFRef(t), every/8+1)...)
	var out []job
	for _, gr := range grs {
		out = append(out, job{kind: "grammar", gr: gr})
	}
	return out
}

type lexVariant struct {
	name  string
	def   lexer.Definition
	elide []string
}

var lexVariants = []lexVariant{
	{"stateful", lexDef, []string{"Space", "Comment", "NL"}},
	{"text/scanner", lexer.TextScannerLexer, nil},
}

func buildAny(gr *gfam.Grammar, lv lexVariant, k int) (*participle.Parser[any], error, string) {
	tc := g.TypeCache{}
	rootT := tc.GoType(gr.Root)
	opts := []participle.Option{participle.Lexer(lv.def), participle.UseLookahead(k), participle.Union[any](reflect.New(rootT).Elem().Interface())}
	if len(lv.elide) > 0 {
		opts = append(opts, participle.Elide(lv.elide...))
	}
	slotSeen := map[int]bool{}
	for _, u := range gr.Root.Unions() {
		if slotSeen[u.UnionSlot] {
			continue // one Union option per interface type, however often the union is referenced
		}
		slotSeen[u.UnionSlot] = true
		var ms []any
		for _, m := range u.Members {
			ms = append(ms, reflect.New(tc.GoType(m)).Elem().Interface())
		}
		switch u.UnionSlot {
		case 0:
			opts = append(opts, participle.Union[g.U0](toU[g.U0](ms)...))
		case 1:
			opts = append(opts, participle.Union[g.U1](toU[g.U1](ms)...))
		default:
			opts = append(opts, participle.Union[g.U2](toU[g.U2](ms)...))
		}
	}
	var p *participle.Parser[any]
	var err error
	pan, msg := hx.Guard(func() { p, err = participle.Build[any](opts...) })
	if pan {
		return nil, nil, msg
	}
	return p, err, ""
}

func toU[T any](ms []any) []T {
	out := make([]T, len(ms))
	for i, m := range ms {
		out[i] = m.(T)
	}
	return out
}

func usesOnlyCommonTypes(gr *gfam.Grammar) bool {
	ok := true
	gr.Root.Walk(func(n *g.Node) {
		if (n.K == g.KRef || (n.K == g.KLit && n.Typ != "")) && n.Typ != "Ident" && n.Typ != "Int" && n.Typ != "Comment" {
			ok = false
		}
	})
	return ok
}

func hasRepetition(gr *gfam.Grammar) bool {
	rep := false
	gr.Root.Walk(func(n *g.Node) {
		if n.K == g.KGroup && (n.Mode == '*' || n.Mode == '+') {
			rep = true
		}
	})
	return rep
}

func runGrammar(w *hx.Worker, gr *gfam.Grammar, maxLen int, pump int, only string) {
	for _, lv := range lexVariants {
		if lv.name == "text/scanner" && !usesOnlyCommonTypes(gr) {
			continue
		}
		for _, k := range []int{1, -1} {
			desc := fmt.Sprintf("%s :: lexer=%s k=%d", gr.Key(), lv.name, k)
			p, err, pan := buildAny(gr, lv, k)
			if pan != "" || err != nil {
				w.Violate(hx.Violation{Key: desc, Class: "build-failed", Detail: map[string]any{"err": fmt.Sprint(err), "panic": pan}})
				continue
			}
			w.Count("parsers", 1)
			for _, in := range lexfam.Inputs(byteAlphabet, maxLen) {
				for mode := 0; mode < 4; mode++ {
					if mode > 0 && len(in) != maxLen {
						continue // the other entry points only on the longest inputs (C15 compares them in full)
					}
					for _, fn := range []string{"", "dir/100%done %s%d.txt"} { // a file name is text, not a format
						if fn != "" && len(in) > 2 {
							continue
						}
						key := fmt.Sprintf("%s :: in=%q mode=%d file=%q", desc, in, mode, fn)
						if only != "" && only != key {
							continue
						}
						w.Case(func() string { return key })
						w.Count("evaluations", 1)
						o := verifCheck(p, fn, []byte(in), mode)
						if o.Class != "" {
							w.Violate(hx.Violation{Key: key, Class: o.Class, Detail: map[string]any{"detail": o.Detail, "error": o.ErrText}})
							continue
						}
						w.Count("outcome:"+o.Kind, 1)
						w.DistinctS(o.Kind + o.ErrText)
						if o.Kind == "parse-error" && len(in) == 3 {
							w.Sample(map[string]any{"grammar": gr.Root.Source(), "lexer": lv.name, "input": in, "error": o.ErrText})
						}
					}
				}
			}
			// pumped flat inputs: recursion depth must not grow with the length of a flat input
			if pump > 0 && k == 1 && hasRepetition(gr) {
				for _, unit := range []string{"a", "b", "a b", "a;", "b a "} {
					small := &verifDepth{}
					big := &verifDepth{}
					key := fmt.Sprintf("%s :: pumped unit=%q n=%d", desc, unit, pump)
					if only != "" && only != key {
						continue
					}
					w.Case(func() string { return key })
					o1 := verifCheck(p, "", []byte(strings.Repeat(unit, 10)), 0, participle.Trace(small))
					o2 := verifCheck(p, "", []byte(strings.Repeat(unit, pump)), 0, participle.Trace(big))
					w.Count("evaluations", 2)
					w.Count("pumped_inputs", 1)
					for _, o := range []verifOutcome{o1, o2} {
						if o.Class != "" {
							w.Violate(hx.Violation{Key: key, Class: o.Class, Detail: map[string]any{"detail": o.Detail, "error": o.ErrText}})
						}
					}
					if big.max > small.max {
						w.Violate(hx.Violation{Key: key, Class: "recursion-depth-grows-with-flat-input-length", Detail: map[string]any{"depth_at_10": small.max, fmt.Sprintf("depth_at_%d", pump): big.max}})
					}
					w.DistinctS(fmt.Sprintf("pump%d/%d", small.max, big.max))
				}
			}
		}
	}
}

// nested recursion (through a union type so that reflect.StructOf can build it)
func nestedGrammars() []*gfam.Grammar {
	var out []*gfam.Grammar
	mk := func(name string, body func(u *g.Prod) *g.Node, open, core, closer string) {
		u := &g.Prod{Name: "U0", UnionSlot: 0, Members: []*g.Prod{nil}}
		s := gfam.AssignOwn("R", body(u))
		u.Members = []*g.Prod{s}
		out = append(out, &gfam.Grammar{Family: "nested-" + name + "|" + open + "|" + core + "|" + closer, Root: s})
	}
	mk("bracket", func(u *g.Prod) *g.Node {
		return g.Alt(g.Seq(g.Lit("a"), g.Sub(-1, u), g.Lit("b")), gfam.CapMark(g.Lit(";")))
	}, "a", ";", "b")
	mk("list", func(u *g.Prod) *g.Node {
		return g.Seq(g.Lit("a"), g.Grp(g.Sub(-1, u), '*'), g.Lit("b"))
	}, "a", "", "b")
	mk("right", func(u *g.Prod) *g.Node {
		return g.Seq(gfam.CapMark(g.Ref("Ident")), g.Grp(g.Sub(-1, u), '?'))
	}, "a", "a", "")
	return out
}

func runNested(w *hx.Worker, gr *gfam.Grammar, maxDepth int) {
	parts := strings.Split(gr.Family, "|")
	open, core, closer := parts[1], parts[2], parts[3]
	lv := lexVariants[0]
	p, err, pan := buildAny(gr, lv, 1)
	if pan != "" || err != nil {
		w.Violate(hx.Violation{Key: gr.Key(), Class: "build-failed", Detail: map[string]any{"err": fmt.Sprint(err), "panic": pan}})
		return
	}
	depths := map[int]int{}
	for m := 1; m <= maxDepth; m *= 2 {
		in := strings.Repeat(open, m) + core + strings.Repeat(closer, m)
		key := fmt.Sprintf("%s :: nested depth=%d", gr.Key(), m)
		d := &verifDepth{}
		o := verifCheck(p, "", []byte(in), 0, participle.Trace(d))
		w.Count("evaluations", 1)
		w.Count("nested_inputs", 1)
		if o.Class != "" {
			w.Violate(hx.Violation{Key: key, Class: o.Class, Detail: map[string]any{"detail": o.Detail, "error": o.ErrText}})
			return
		}
		depths[m] = d.max
		// also the truncated input (unbalanced)
		o = verifCheck(p, "", []byte(strings.Repeat(open, m)+core), 0)
		w.Count("evaluations", 1)
		if o.Class != "" {
			w.Violate(hx.Violation{Key: key + " truncated", Class: o.Class, Detail: map[string]any{"detail": o.Detail, "error": o.ErrText}})
			return
		}
	}
	per := depths[2] - depths[1]
	for m, d := range depths {
		if d > depths[1]+(m-1)*per+4 {
			w.Violate(hx.Violation{Key: fmt.Sprintf("%s :: nested depth=%d", gr.Key(), m), Class: "recursion-depth-not-proportional-to-nesting", Detail: map[string]any{"depths": fmt.Sprint(depths)}})
		}
	}
	w.Sample(map[string]any{"grammar": gr.Root.Source(), "trace_depth_by_nesting": fmt.Sprint(depths)})
	w.DistinctS(fmt.Sprint(depths))
}

// ---- hand-written grammars over a lexer with multi-line tokens, lexer-level elision and numeric fields

var mlLexer = lexer.MustSimple([]lexer.SimpleRule{
	{Name: "Ident", Pattern: `[a-zA-Zé]+`},
	{Name: "Int", Pattern: `[0-9]+`},
	{Name: "Str", Pattern: `"[^"]*"`},
	{Name: "comment", Pattern: `/\*[^*]*\*/`},
	{Name: "Punct", Pattern: `[;,=]`},
	{Name: "ws", Pattern: `[ \t\n\r]+`},
})

type MLDoc struct {
	Items []*MLItem `@@*`
}
type MLItem struct {
	Key   string   `@Ident "="`
	Str   *string  `(  @Str`
	Small []uint8  ` | @Int ( "," @Int )*`
	Words []string ` | @Ident+ ) ";"`
}
type MLNums struct {
	F32  []float32 `( @Int "," )*`
	I8   int8      `@Int?`
	Rest []string  `@Ident*`
}

// a stateful lexer whose Pop rule is reachable in the initial state (unbalanced closers are a lexing error)
var braceLexer = lexer.MustStateful(lexer.Rules{
	"Root": {lexer.Include("Body")},
	"Body": {
		{Name: "Open", Pattern: `\{`, Action: lexer.Push("Body")},
		{Name: "Close", Pattern: `\}`, Action: lexer.Pop()},
		{Name: "Ident", Pattern: `[a-z]+`},
		{Name: "ws", Pattern: `[ \n]+`},
	},
})

type BraceDoc struct {
	Items []*BraceItem `@@*`
}
type BraceItem struct {
	Name  string       `  @Ident`
	Block []*BraceItem `| Open @@* Close`
}

// capture targets that convert themselves (participle.Capture / encoding.TextUnmarshaler with pointer
// receivers), as plain fields, pointers and slice elements
type scCap struct{ S string }

func (c *scCap) Capture(values []string) error { c.S += strings.Join(values, ""); return nil }

type scTxt struct{ S string }

func (t *scTxt) UnmarshalText(b []byte) error {
	if string(b) == "bad" {
		return fmt.Errorf("scTxt refuses %q", b)
	}
	t.S += string(b)
	return nil
}

type SCDoc struct {
	A  scCap    `@Ident`
	B  []scCap  `( "," @Ident )*`
	C  []*scCap `( ";" @Ident )*`
	T  *scTxt   `( "=" @Ident`
	TS []scTxt  `  ( "," @Ident )*`
	TP []*scTxt `  ( ";" @Ident )* )?`
}

// scCheck: besides the oracle of C06, a successful parse has handed every identifier of the input to
// exactly one capture target, in order.
func scCheck(p *participle.Parser[SCDoc], fn string, in []byte) verifOutcome {
	o := verifCheck(p, fn, in, 0)
	if o.Class != "" || o.Kind != "ok" {
		return o
	}
	v, err := p.ParseBytes(fn, in)
	if err != nil || v == nil {
		return o
	}
	got := v.A.S
	for _, x := range v.B {
		got += "," + x.S
	}
	for _, x := range v.C {
		if x != nil {
			got += "," + x.S
		}
	}
	if v.T != nil {
		got += "," + v.T.S
	}
	for _, x := range v.TS {
		got += "," + x.S
	}
	for _, x := range v.TP {
		if x != nil {
			got += "," + x.S
		}
	}
	toks, _ := p.Lex(fn, bytes.NewReader(in))
	var want []string
	for _, t := range toks {
		if t.Type == mlLexer.Symbols()["Ident"] {
			want = append(want, t.Value)
		}
	}
	if got != strings.Join(want, ",") {
		o.Class = "captured-values-lost-or-altered"
		o.Detail = fmt.Sprintf("identifiers in the input: %q, values in the AST: %q", strings.Join(want, ","), got)
	}
	return o
}

func runMultiline(w *hx.Worker, quick bool) {
	psc := participle.MustBuild[SCDoc](participle.Lexer(mlLexer))
	pd := participle.MustBuild[MLDoc](participle.Lexer(mlLexer), participle.UseLookahead(2))
	pn := participle.MustBuild[MLNums](participle.Lexer(mlLexer))
	alpha := [][]byte{[]byte("{"), []byte("}"), []byte("a"), []byte("1"), []byte(" "), []byte("\n"), []byte("\""), []byte("é"), []byte("\xff"), []byte(";"), []byte(","), []byte("="), []byte("/*"), []byte("*/"), []byte("9999")}
	seedsD := []string{"a = \"x\né\" ; b = 1,2,300 ; c = d é ;", "k=/* é\né */ \"s\";\nz = 255 , 256;", "a = \"é\né\nééé\" x"}
	seedsN := []string{"1, 2, 3, 127 a b", "1e, 4, 128", "99999999999999999999999999999999999999999, 1 x", "3, 300 é"}
	drive := func(name string, check func(in []byte, fn string) verifOutcome, seeds []string) {
		for si, seed := range seeds {
			f := func(in []byte, what string) {
				key := fmt.Sprintf("multiline %s seed#%d %s :: in=%q", name, si, what, in)
				w.Count("evaluations", 1)
				w.Count("multiline_inputs", 1)
				o := check(in, "m%v.txt")
				if o.Class != "" {
					w.Violate(hx.Violation{Key: key, Class: o.Class, Detail: map[string]any{"detail": o.Detail, "error": o.ErrText}})
					return
				}
				w.Count("outcome:"+o.Kind, 1)
				w.DistinctS(name + o.Kind + o.ErrText)
			}
			verifEdits([]byte(seed), alpha, f)
			if !quick && len(seed) < 30 {
				verifEdits([]byte(seed), alpha[:8], func(in1 []byte, w1 string) {
					verifEdits(in1, alpha[:8], func(in2 []byte, w2 string) { f(in2, w1+" then "+w2) })
				})
			}
		}
	}
	pb := participle.MustBuild[BraceDoc](participle.Lexer(braceLexer))
	drive("braces", func(in []byte, fn string) verifOutcome { return verifCheck(pb, fn, in, 0) }, []string{"a { b } } c", "{ a { b { c } } }", "}", "a { b"})
	drive("self-converting", func(in []byte, fn string) verifOutcome { return scCheck(psc, fn, in) }, []string{"a , b , c ; d ; e = f , g , h ; i ; j", "a = b , bad", "a , b = c ; d", "x ; y = bad ; z"})
	drive("doc", func(in []byte, fn string) verifOutcome { return verifCheck(pd, fn, in, 0) }, seedsD)
	drive("nums", func(in []byte, fn string) verifOutcome { return verifCheck(pn, fn, in, 1) }, seedsN)
}

// runFlatSub runs in a subprocess with a SMALL stack limit: very long flat inputs (tokens, and runs of
// tokens elided by the lexer itself) must lex and parse with bounded stack. A stack overflow is fatal
// and is seen by the parent as a crashed subprocess.
func runFlatSub(n int) {
	debug.SetMaxStack(1 << 20)
	pd := participle.MustBuild[MLDoc](participle.Lexer(mlLexer), participle.UseLookahead(2))
	pn := participle.MustBuild[MLNums](participle.Lexer(mlLexer))
	type tdoc struct {
		Words []string `@Ident*`
	}
	pt := participle.MustBuild[tdoc]()
	cases := []struct {
		name string
		f    func() error
	}{
		{"lexer-elided run: comments and newlines", func() error {
			_, err := pd.ParseString("", "a = 1 ;"+strings.Repeat("/* c */\n", n)+"b = 2 ;")
			return err
		}},
		{"many items", func() error { _, err := pd.ParseString("", strings.Repeat("a = b c ;\n", n)); return err }},
		{"long list of numbers", func() error { _, err := pn.ParseString("", strings.Repeat("1, ", n)+"5 x"); return err }},
		{"long list in one item", func() error {
			_, err := pd.ParseString("", "a = 1"+strings.Repeat(",2", n)+";")
			return err
		}},
		{"text/scanner words", func() error { _, err := pt.ParseString("", strings.Repeat("w ", n)); return err }},
		{"text/scanner comments", func() error { _, err := pt.ParseString("", strings.Repeat("// c\n", n)+"w"); return err }},
		{"lex error after a long prefix", func() error {
			_, err := pd.ParseString("", strings.Repeat("a = b ;", n)+"$")
			if err == nil {
				return fmt.Errorf("expected a lex error")
			}
			return nil
		}},
	}
	for _, c := range cases {
		fmt.Printf("CASE %s\n", c.name)
		if err := c.f(); err != nil {
			fmt.Printf("FAIL %s: %v\n", c.name, err)
		} else {
			fmt.Printf("OK %s\n", c.name)
		}
	}
	fmt.Println("DONE")
}

func runFlat(w *hx.Worker, n int) {
	cmd := exec.Command(os.Args[0])
	cmd.Env = append(os.Environ(), fmt.Sprintf("VERIF_TOTALX_FLAT=%d", n))
	out, err := cmd.CombinedOutput()
	s := string(out)
	w.Count("evaluations", int64(strings.Count(s, "CASE ")))
	w.Count("flat_inputs_under_1MB_stack", int64(strings.Count(s, "OK ")))
	if err != nil || !strings.Contains(s, "DONE") || strings.Contains(s, "FAIL ") {
		last := ""
		for _, l := range strings.Split(s, "\n") {
			if strings.HasPrefix(l, "CASE ") {
				last = l
			}
		}
		cls := "flat-input-case-failed"
		if strings.Contains(s, "stack overflow") || strings.Contains(s, "goroutine stack exceeds") {
			cls = "stack-overflow-on-flat-input"
		}
		w.Violate(hx.Violation{Key: fmt.Sprintf("flat n=%d %s", n, last), Class: cls, Detail: map[string]any{"output": tail(firstN(s, 3000), 3000), "error": fmt.Sprint(err)}})
	}
	w.DistinctS("flat" + s[:minI(len(s), 200)])
}

func firstN(s string, n int) string {
	if len(s) > n {
		return s[:n]
	}
	return s
}
func minI(a, b int) int {
	if a < b {
		return a
	}
	return b
}

// ---- examples: driven by test binaries compiled (with an overlaid driver) by build.sh

func exampleNames() []string {
	ents, _ := filepath.Glob(filepath.Join(binDir(), "ex_*.test"))
	var out []string
	for _, e := range ents {
		out = append(out, strings.TrimSuffix(strings.TrimPrefix(filepath.Base(e), "ex_"), ".test"))
	}
	sort.Strings(out)
	return out
}

func binDir() string {
	if d := os.Getenv("VERIF_BIN"); d != "" {
		return d
	}
	return "/verif/build/bin"
}

func runExample(w *hx.Worker, name string, quick bool) {
	bin := filepath.Join(binDir(), "ex_"+name+".test")
	outFile := filepath.Join(hx.OutDir(), "build", "tmp", fmt.Sprintf("ex-%s-%d.jsonl", name, os.Getpid()))
	os.MkdirAll(filepath.Dir(outFile), 0o755)
	defer os.Remove(outFile)
	cmd := exec.Command(bin, "-test.run", "^TestVerifDrive$", "-test.count=1", "-test.timeout=20m")
	cmd.Dir = filepath.Join(hx.RepoDir(), "_examples", name)
	tier := "thorough"
	if quick {
		tier = "quick"
	}
	cmd.Env = append(os.Environ(), "VERIF_EX_OUT="+outFile, "VERIF_EX_TIER="+tier)
	outb, err := cmd.CombinedOutput()
	f, ferr := os.Open(outFile)
	if ferr != nil {
		w.Violate(hx.Violation{Key: "example " + name, Class: "example-driver-crashed", Detail: map[string]any{"error": fmt.Sprint(err), "output": tail(string(outb), 3000)}})
		return
	}
	defer f.Close()
	sc := bufio.NewScanner(f)
	sc.Buffer(make([]byte, 1<<20), 1<<26)
	done := false
	for sc.Scan() {
		var rec struct {
			Type     string           `json:"type"`
			Key      string           `json:"key"`
			Class    string           `json:"class"`
			Detail   map[string]any   `json:"detail"`
			Counters map[string]int64 `json:"counters"`
			Distinct []string         `json:"distinct"`
			Sample   map[string]any   `json:"sample"`
		}
		if json.Unmarshal(sc.Bytes(), &rec) != nil {
			continue
		}
		switch rec.Type {
		case "violation":
			w.Violate(hx.Violation{Key: "example " + name + " :: " + rec.Key, Class: rec.Class, Detail: rec.Detail})
		case "summary":
			done = true
			for k, v := range rec.Counters {
				w.Count(k, v)
			}
			for _, d := range rec.Distinct {
				w.DistinctS(name + d)
			}
			if rec.Sample != nil {
				w.Sample(rec.Sample)
			}
		}
	}
	if !done {
		// the driver died (fatal error such as a stack overflow) before finishing
		w.Violate(hx.Violation{Key: "example " + name, Class: "example-driver-crashed", Detail: map[string]any{"error": fmt.Sprint(err), "output": tail(string(outb), 3000)}})
	}
	w.Count("examples", 1)
}

func tail(s string, n int) string {
	if len(s) > n {
		return s[len(s)-n:]
	}
	return s
}

func plan(c *hx.Ctx) *hx.Plan {
	debug.SetMaxStack(64 << 20)
	js := grammarJobs(c.Quick())
	for _, gr := range nestedGrammars() {
		js = append(js, job{kind: "nested", gr: gr})
	}
	for _, ex := range exampleNames() {
		js = append(js, job{kind: "example", ex: ex})
	}
	js = append(js, job{kind: "multiline"}, job{kind: "flat"})
	maxLen, pump, nest := 3, 1000, 256
	if !c.Quick() {
		maxLen, pump, nest = 4, 20000, 512
	}
	if c.Extra["only"] != "" {
		var sel []job
		for _, j := range js {
			if j.kind == c.Extra["only"] {
				sel = append(sel, j)
			}
		}
		js = sel
	}
	// examples first: they are the long jobs
	sort.SliceStable(js, func(i, k int) bool { return js[i].kind == "example" && js[k].kind != "example" })
	return &hx.Plan{
		N: len(js),
		Job: func(w *hx.Worker, i int) {
			switch js[i].kind {
			case "grammar":
				pm := 0
				if i%4 == 0 {
					pm = pump
				}
				runGrammar(w, js[i].gr, maxLen, pm, "")
			case "nested":
				runNested(w, js[i].gr, nest)
			case "example":
				runExample(w, js[i].ex, c.Quick())
			case "multiline":
				runMultiline(w, c.Quick())
			case "flat":
				runFlat(w, map[bool]int{true: 20000, false: 300000}[c.Quick()])
			}
		},
		Describe: func(i int) string {
			if js[i].kind == "example" {
				return "example " + js[i].ex
			}
			if js[i].gr == nil {
				return js[i].kind
			}
			return js[i].gr.Key()
		},
		Rule:   "(a) a deterministic thinning of the generated grammar families (core, negation/lookahead, sub-productions, field kinds, explicit elided types; grammars with nullable roots/alternatives/repetition bodies excluded) x both the stateful and the text/scanner lexer x lookahead {1, unlimited} x every BYTE string up to the length bound over {a,b,1,;,space,#,newline,\",é,0xff,$} (includes unlexable and non-UTF-8 input) through ParseString (and ParseBytes / Parse(reader) on the longest inputs, with and without a filename); (b) the repository's example grammars compiled in place with an overlaid driver: seeds (the examples' own sample inputs and short hand-written ones) explored to edit distance 1 (every insertion/deletion/replacement at every position over the grammar's punctuation + letter, digit, space, newline, quote, backslash, é, 0xff) and every truncation, plus nested inputs up to depth 256; (c) pumped inputs: flat repetitions up to the bound and nested recursion, with recursion depth observed through the Trace option. Oracle: returns under recover; (ast, nil) or non-nil error that is a participle.Error with the supplied filename, an in-bounds offset, line/column recomputed from the offset, Error() = [file:]line:col: message, Unexpected token present in Parser.Lex output; lexing failure with nil AST, parse failure with non-nil AST; depth(flat, n) = depth(flat, 10); depth(nested, m) linear in m. evaluations = Parse calls",
		Bounds: map[string]any{"max_input_len": maxLen, "flat_pump": pump, "max_nesting": nest, "byte_alphabet": byteAlphabet, "examples": exampleNames()},
		Assume: []string{"user Parseable/Capture code returning foreign errors is out of scope", "Elide() of unknown token types is a configuration error (panics by design)", "stack growth is observed through Trace indentation; the child additionally runs with a 64 MB stack limit so that an overflow is fatal and attributed by the supervisor"},
	}
}

func replay(c *hx.Ctx, key string) []hx.Violation {
	w := hx.NewReplayWorker()
	if strings.HasPrefix(key, "multiline ") {
		runMultiline(w, false)
		var out []hx.Violation
		for _, v := range w.Violations() {
			if v.Key == key {
				out = append(out, v)
			}
		}
		return out
	}
	if strings.HasPrefix(key, "flat ") {
		runFlat(w, 300000)
		return w.Violations()
	}
	if strings.HasPrefix(key, "example ") {
		name := strings.Fields(key)[1]
		runExample(w, name, false)
		var out []hx.Violation
		for _, v := range w.Violations() {
			if v.Key == key {
				out = append(out, v)
			}
		}
		return out
	}
	for _, q := range []bool{true, false} {
		for _, j := range grammarJobs(q) {
			if strings.HasPrefix(key, j.gr.Key()+" :: ") {
				runGrammar(w, j.gr, 4, 100000, key)
				return w.Violations()
			}
		}
	}
	for _, gr := range nestedGrammars() {
		if strings.HasPrefix(key, gr.Key()) {
			runNested(w, gr, 512)
		}
	}
	return w.Violations()
}

func main() {
	if s := os.Getenv("VERIF_TOTALX_FLAT"); s != "" {
		var n int
		fmt.Sscan(s, &n)
		runFlatSub(n)
		return
	}
	hx.Main(&hx.Spec{Engine: "totalx", JobTimeout: 3 * time.Minute, Levels: map[string]string{"C06": "exploration"}, Plan: plan, Replay: replay})
}
