package main

// This file is shared verbatim between the totalx engine and the drivers that are overlaid into the
// repository's example packages (as verif_oracle_test.go). It only imports the standard library
// and participle. It implements C06's oracle: Parse returns a value or a well-formed, located error.

import (
	"bytes"
	"errors"
	"fmt"
	"io"
	"strings"
	"unicode/utf8"

	"github.com/alecthomas/participle/v2"
	"github.com/alecthomas/participle/v2/lexer"
)

// verifDepth is a Trace writer that measures the deepest indentation (two spaces per level) and
// aborts a runaway recursion by panicking past a limit.
type verifDepth struct {
	limit int
	max   int
}

type verifDepthTrip struct{ depth int }

func (d *verifDepth) Write(p []byte) (int, error) {
	n := 0
	for n < len(p) && p[n] == ' ' {
		n++
	}
	if n/2 > d.max {
		d.max = n / 2
	}
	if d.limit > 0 && n/2 > d.limit {
		panic(verifDepthTrip{n / 2})
	}
	return len(p), nil
}

func verifPosAt(in []byte, off int) (line, col int) {
	line = 1 + bytes.Count(in[:off], []byte("\n"))
	ls := bytes.LastIndexByte(in[:off], '\n') + 1
	col = 1 + utf8.RuneCount(in[ls:off])
	return
}

// verifOutcome summarises one call for outcome counting.
type verifOutcome struct {
	Class   string // "" = property holds; otherwise the violated clause
	Detail  string
	Kind    string // ok | lex-error | parse-error
	ErrText string
}

// verifNamedReader is a reader that has a name of its own (like *os.File): the name is only a fallback
// for an empty filename argument.
type verifNamedReader struct{ *bytes.Reader }

func (verifNamedReader) Name() string { return "name-of-reader.txt" }

// verifCheck runs one entry point on one input and checks every clause of C06.
// mode: 0 ParseString, 1 ParseBytes, 2 Parse(reader), 3 Parse(reader that has a Name()).
func verifCheck[T any](p *participle.Parser[T], filename string, input []byte, mode int, opts ...participle.ParseOption) (out verifOutcome) {
	var v *T
	var err error
	func() {
		defer func() {
			if r := recover(); r != nil {
				if _, ok := r.(verifDepthTrip); ok {
					panic(r)
				}
				out.Class = "panic"
				out.Detail = fmt.Sprint(r)
			}
		}()
		switch mode {
		case 0:
			v, err = p.ParseString(filename, string(input), opts...)
		case 1:
			v, err = p.ParseBytes(filename, input, opts...)
		case 2:
			v, err = p.Parse(filename, bytes.NewReader(input), opts...)
		default:
			v, err = p.Parse(filename, verifNamedReader{bytes.NewReader(input)}, opts...)
		}
	}()
	if mode == 3 && filename == "" {
		filename = "name-of-reader.txt" // documented fallback
	}
	if out.Class != "" {
		return out
	}
	if err == nil {
		out.Kind = "ok"
		if v == nil {
			out.Class = "nil-ast-and-nil-error"
		}
		return out
	}
	out.ErrText = err.Error()
	// lexing failure or parse failure?
	toks, lexErr := func() (t []lexer.Token, e error) {
		defer func() {
			if r := recover(); r != nil {
				e = fmt.Errorf("Parser.Lex panicked: %v", r)
			}
		}()
		return p.Lex(filename, bytes.NewReader(input))
	}()
	if lexErr != nil {
		out.Kind = "lex-error"
		if v != nil {
			out.Class = "lexing-failure-with-non-nil-ast"
			return out
		}
	} else {
		out.Kind = "parse-error"
		if v == nil {
			out.Class = "parse-failure-with-nil-ast"
			return out
		}
	}
	pe, ok := err.(participle.Error)
	if !ok {
		out.Class = "error-is-not-a-participle.Error"
		out.Detail = fmt.Sprintf("%T: %v", err, err)
		return out
	}
	pos := pe.Position()
	if pos.Filename != filename {
		out.Class = "error-position-filename"
		out.Detail = fmt.Sprintf("position %#v, filename supplied %q", pos, filename)
		return out
	}
	if pos.Offset < 0 || pos.Offset > len(input) {
		out.Class = "error-position-out-of-bounds"
		out.Detail = fmt.Sprintf("position %#v, input length %d", pos, len(input))
		return out
	}
	if utf8.Valid(input[:pos.Offset]) {
		line, col := verifPosAt(input, pos.Offset)
		if pos.Line != line || pos.Column != col {
			out.Class = "error-position-line-column"
			out.Detail = fmt.Sprintf("position %#v, offset %d is %d:%d", pos, pos.Offset, line, col)
			return out
		}
	}
	want := ""
	if filename != "" {
		want = filename + ":"
	}
	want += fmt.Sprintf("%d:%d: %s", pos.Line, pos.Column, pe.Message())
	if err.Error() != want {
		out.Class = "error-text-format"
		out.Detail = fmt.Sprintf("Error() = %q, expected %q", err.Error(), want)
		return out
	}
	var ute *participle.UnexpectedTokenError
	if errors.As(err, &ute) && lexErr == nil {
		found := false
		for _, t := range toks {
			if t.Pos == ute.Unexpected.Pos && t.Type == ute.Unexpected.Type && t.Value == ute.Unexpected.Value {
				found = true
				break
			}
		}
		if !found {
			out.Class = "unexpected-token-not-in-input"
			out.Detail = fmt.Sprintf("Unexpected = %#v is not a token of Parser.Lex's output", ute.Unexpected)
			return out
		}
	}
	return out
}

// verifEdits enumerates every truncation and every single insertion / deletion / replacement.
func verifEdits(seed []byte, alphabet [][]byte, f func(in []byte, what string)) {
	f(seed, "seed")
	for i := 0; i < len(seed); i++ {
		f(seed[:i], fmt.Sprintf("truncate@%d", i))
	}
	for i := 0; i <= len(seed); i++ {
		for _, a := range alphabet {
			ins := append(append(append([]byte{}, seed[:i]...), a...), seed[i:]...)
			f(ins, fmt.Sprintf("insert %q@%d", a, i))
			if i < len(seed) {
				rep := append(append(append([]byte{}, seed[:i]...), a...), seed[i+1:]...)
				f(rep, fmt.Sprintf("replace@%d by %q", i, a))
			}
		}
		if i < len(seed) {
			del := append(append([]byte{}, seed[:i]...), seed[i+1:]...)
			f(del, fmt.Sprintf("delete@%d", i))
		}
	}
}

var _ = io.EOF
var _ = strings.Repeat
