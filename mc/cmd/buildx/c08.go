package main

import (
	"fmt"
	"io"
	"os"
	"reflect"
	"strings"

	"github.com/alecthomas/participle/v2"

	"verif/mc/internal/gfam"
	g "verif/mc/internal/gmodel"
	"verif/mc/internal/hx"
)

// A recursive grammar: productions P0..Pk-1, each a union U_i with one struct member S_i, so that
// arbitrary (mutual) recursion can be expressed with reflect.StructOf types (the static interface
// types U0..U2 break the type cycle).
type recGrammar struct {
	family  string
	root    *g.Prod // union U0
	structs []*g.Prod
}

type depthGuard struct {
	limit int
	max   int
}

type guardTrip struct{ depth int }

func (d *depthGuard) Write(p []byte) (int, error) {
	n := 0
	for n < len(p) && p[n] == ' ' {
		n++
	}
	if n/2 > d.max {
		d.max = n / 2
	}
	if n/2 > d.limit {
		panic(guardTrip{n / 2})
	}
	return len(p), nil
}

var _ io.Writer = &depthGuard{}

// cur holds the union productions of the grammar under construction (leaf closures read it).
type builder struct {
	unions []*g.Prod
}

func (b *builder) sub(i int) gfam.LeafFn {
	return func() *g.Node { return g.Sub(-1, b.unions[i]) }
}

func lit(s string) gfam.LeafFn { return func() *g.Node { return g.Lit(s) } }

func wrapAll(fs []gfam.LeafFn) []gfam.LeafFn {
	var out []gfam.LeafFn
	for _, f := range fs {
		f := f
		out = append(out, f,
			func() *g.Node { return g.Grp(f(), '?') },
			func() *g.Node { return g.Grp(f(), '*') },
			func() *g.Node { return g.Grp(f(), '+') },
			func() *g.Node { return g.Look(f(), '=') },
			func() *g.Node { return g.Look(f(), '!') },
			func() *g.Node { return g.Grp(f(), 0) },
			func() *g.Node { return g.Grp(g.Grp(f(), '?'), '!') },                           // nullable body, but the group must match something
			func() *g.Node { return g.Grp(g.Grp(gfam.CapMark(g.Grp(f(), '?')), '*'), '!') }, // a repetition of a capture that can match nothing
		)
	}
	return out
}

func c08grammars(quick bool) []func() *recGrammar {
	var out []func() *recGrammar
	mk := func(family string, k int, bodies func(b *builder) []gfam.LeafFn) {
		// enumerate the index space once to know its size
		probe := &builder{unions: make([]*g.Prod, k)}
		for i := range probe.unions {
			probe.unions[i] = &g.Prod{Name: fmt.Sprintf("U%d", i), UnionSlot: i}
		}
		n := len(bodies(probe))
		for idx := 0; idx < n; idx++ {
			idx := idx
			out = append(out, func() *recGrammar {
				b := &builder{unions: make([]*g.Prod, k)}
				for i := range b.unions {
					b.unions[i] = &g.Prod{Name: fmt.Sprintf("U%d", i), UnionSlot: i, Members: []*g.Prod{nil}} // placeholder: fields get the union kind
				}
				body := bodies(b)[idx]()
				// body is a sequence node "P0 body ; P1 body ; ..." encoded as KSeq with k kids
				rg := &recGrammar{family: family, root: b.unions[0]}
				for i := 0; i < k; i++ {
					s := gfam.AssignOwn(fmt.Sprintf("S%d", i), body.Kids[i])
					b.unions[i].Members = []*g.Prod{s}
					rg.structs = append(rg.structs, s)
				}
				return rg
			})
		}
	}
	// one production
	mk("rec1", 1, func(b *builder) []gfam.LeafFn {
		leaves := append(wrapAll([]gfam.LeafFn{lit("x"), b.sub(0)}), func() *g.Node { return g.Neg(g.Lit("x")) }, func() *g.Node { return gfam.CapMark(g.Lit("y")) },
			// things that succeed without consuming although they look as if they consumed: a non-empty group
			// satisfied by the value of a capture that matched nothing, the EOF token, the empty literal
			func() *g.Node { return g.Grp(gfam.CapMark(g.Grp(g.Lit("x"), '?')), '!') },
			func() *g.Node { return g.Ref("EOF") },
			func() *g.Node { return g.Lit("") },
			// an explicitly named elided token: consuming it is progress although the ordinary-token cursor stands still
			func() *g.Node { return g.Ref("Space") },
			func() *g.Node { return g.Alt(g.Ref("Space"), g.Lit("x")) })
		var ts []gfam.LeafFn
		ts = append(ts, gfam.Terms(1, leaves)...)
		ts = append(ts, gfam.Terms(2, leaves)...)
		if !quick {
			small := []gfam.LeafFn{lit("x"), b.sub(0), func() *g.Node { return g.Grp(g.Lit("x"), '?') }, func() *g.Node { return g.Look(g.Lit("x"), '=') }, func() *g.Node { return g.Grp(b.sub(0)(), '?') }}
			ts = append(ts, gfam.Terms(3, small)...)
		} else {
			small := []gfam.LeafFn{lit("x"), b.sub(0), func() *g.Node { return g.Grp(g.Lit("x"), '?') }}
			t3 := gfam.Terms(3, small)
			for i, f := range t3 {
				if i%3 == 0 {
					ts = append(ts, f)
				}
			}
		}
		ts = gfam.Top(ts)
		var outF []gfam.LeafFn
		for _, f := range ts {
			f := f
			outF = append(outF, func() *g.Node { return g.Seq(f()) })
		}
		return outF
	})
	// two productions: P0 from a term set, P1 from a fixed menu
	mk("rec2", 2, func(b *builder) []gfam.LeafFn {
		leaves := []gfam.LeafFn{lit("x"), b.sub(0), b.sub(1), func() *g.Node { return g.Grp(g.Lit("x"), '?') }, func() *g.Node { return g.Grp(b.sub(1)(), '?') }, func() *g.Node { return g.Look(b.sub(1)(), '=') }, func() *g.Node { return g.Look(g.Lit("y"), '!') },
			func() *g.Node { return g.Grp(g.Seq(g.Grp(g.Lit("x"), '?'), g.Grp(g.Lit("y"), '?')), '!') },
			func() *g.Node { return g.Grp(g.Seq(gfam.CapMark(g.Grp(g.Lit("x"), '?')), g.Grp(g.Lit("y"), '?')), '!') },
			func() *g.Node { return g.Ref("EOF") }}
		var ts []gfam.LeafFn
		ts = append(ts, gfam.Terms(1, leaves)...)
		ts = append(ts, gfam.Terms(2, leaves)...)
		menu := []gfam.LeafFn{
			func() *g.Node { return g.Seq(g.Lit("y"), g.Lit("z")) },
			func() *g.Node { return g.Grp(g.Lit("y"), '?') },
			func() *g.Node { return b.sub(0)() },
			func() *g.Node { return g.Seq(b.sub(0)(), g.Lit("x")) },
			func() *g.Node { return g.Seq(g.Lit("y"), b.sub(0)()) },
			func() *g.Node { return g.Seq(g.Grp(g.Lit("y"), '?'), b.sub(0)()) },
			func() *g.Node { return g.Seq(g.Look(g.Lit("y"), '='), b.sub(0)()) },
			func() *g.Node { return g.Alt(g.Lit("y"), g.Seq(b.sub(1)(), g.Lit("y"))) },
			func() *g.Node { return g.Alt(g.Seq(g.Lit("y"), g.Lit("z")), g.Seq(b.sub(0)(), g.Lit("y"))) },
		}
		if quick {
			var thin []gfam.LeafFn
			for i, f := range ts {
				if i%3 == 0 {
					thin = append(thin, f)
				}
			}
			ts = thin
		}
		var outF []gfam.LeafFn
		for _, f := range ts {
			for _, m := range menu {
				f, m := f, m
				outF = append(outF, func() *g.Node { return g.Seq(f(), m()) })
			}
		}
		return outF
	})
	{
		mk("rec3", 3, func(b *builder) []gfam.LeafFn {
			leaves := []gfam.LeafFn{lit("x"), b.sub(0), b.sub(1), b.sub(2), func() *g.Node { return g.Grp(g.Lit("x"), '?') }}
			var ts []gfam.LeafFn
			ts = append(ts, gfam.Terms(1, leaves)...)
			ts = append(ts, gfam.Terms(2, leaves)...)
			m1 := []gfam.LeafFn{func() *g.Node { return b.sub(2)() }, func() *g.Node { return g.Seq(g.Grp(g.Lit("y"), '?'), b.sub(2)()) }, func() *g.Node { return g.Seq(g.Lit("y"), b.sub(2)()) }, func() *g.Node { return g.Lit("y") },
				func() *g.Node { return g.Seq(b.sub(2)(), b.sub(2)()) }, func() *g.Node { return g.Seq(b.sub(2)(), g.Grp(b.sub(2)(), '?'), g.Lit("y")) }}
			m2 := []gfam.LeafFn{func() *g.Node { return b.sub(0)() }, func() *g.Node { return g.Seq(g.Lit("z"), b.sub(0)()) }, func() *g.Node { return g.Alt(g.Lit("z"), g.Seq(b.sub(0)(), g.Lit("z"))) }, func() *g.Node { return g.Seq(g.Grp(g.Lit("z"), '*'), b.sub(1)()) },
				func() *g.Node { return g.Grp(g.Lit("z"), '*') }, func() *g.Node { return g.Grp(g.Alt(g.Lit("z"), g.Lit("w")), '?') }}
			var outF []gfam.LeafFn
			for _, f := range ts {
				for _, a := range m1 {
					for _, c := range m2 {
						f, a, c := f, a, c
						outF = append(outF, func() *g.Node { return g.Seq(f(), a(), c()) })
					}
				}
			}
			return outF
		})
	}
	return out
}

func buildRec(rg *recGrammar, tc g.TypeCache) (p *participle.Parser[any], err error, panicked string) {
	opts := []participle.Option{participle.Lexer(lexDef), participle.UseLookahead(2), participle.Elide("Space")}
	// the root is U0 itself: Build[any] needs the `any` union to have the root struct... use a wrapper member
	rootStruct := rg.structs[0]
	opts = append(opts, participle.Union[any](reflect.New(tc.GoType(rootStruct)).Elem().Interface()))
	for i, s := range rg.structs {
		v := reflect.New(tc.GoType(s)).Elem().Interface()
		switch i {
		case 0:
			opts = append(opts, participle.Union[g.U0](v.(g.U0)))
		case 1:
			opts = append(opts, participle.Union[g.U1](v.(g.U1)))
		case 2:
			opts = append(opts, participle.Union[g.U2](v.(g.U2)))
		}
	}
	pan, msg := hx.Guard(func() { p, err = participle.Build[any](opts...) })
	if pan {
		return nil, nil, msg
	}
	return p, err, ""
}

func c08key(rg *recGrammar) string { return rg.family + " :: " + rg.root.Source() }

var c08inputs = func() []string {
	out := []string{""}
	prev := []string{""}
	for l := 1; l <= 4; l++ {
		var next []string
		for _, p := range prev {
			for _, c := range "xyz " {
				next = append(next, p+string(c))
			}
		}
		out = append(out, next...)
		prev = next
	}
	return out
}()

func runC08(w *hx.Worker, mk func() *recGrammar, onlyKey string) {
	rg := mk()
	key := c08key(rg)
	if onlyKey != "" && !strings.HasPrefix(onlyKey, key) {
		return
	}
	w.Case(func() string { return key })
	w.Count("evaluations", 1)
	w.Count("states", 1)
	tc := g.TypeCache{}
	expected, cyc := g.LeftRecursive(rg.root)
	p, err, pan := buildRec(rg, tc)
	if pan != "" {
		w.Violate(hx.Violation{Key: key, Class: "build-panics", Detail: map[string]any{"panic": pan}})
		return
	}
	isLR := err != nil && strings.Contains(err.Error(), "left recursion")
	if err != nil && !isLR {
		// some other build error (eg. nullable union diagnostics): out of scope here
		w.Count("build_rejected_for_other_reason", 1)
		w.DistinctS("other:" + err.Error()[:minInt(30, len(err.Error()))])
		return
	}
	w.DistinctS(fmt.Sprintf("%s expected=%v rejected=%v", key, expected, isLR))
	if isLR {
		w.Count("rejected_as_left_recursive", 1)
		if !expected {
			w.Violate(hx.Violation{Key: key, Class: "non-left-recursive-grammar-rejected", Detail: map[string]any{"error": err.Error()}})
		}
		return
	}
	w.Count("accepted", 1)
	if r := "nullable repetition body"; false && rg.root.HasNullableRepetition() {
		// a repetition whose body can match nothing loops up to MaxIterations (the library's own notion of a
		// grammar bug): Build's verdict above is still judged, the dynamic cross-validation is skipped.
		// Nullable alternatives / union members are parsed: the library's "did not progress" panic is
		// recovered below and simply yields no witness.
		w.Count("accepted_but_not_parsed:"+r, 1)
		if expected {
			w.Count("unconfirmed:procedure says left-recursive, Build accepts, grammar not parsed (out of domain)", 1)
		}
		return
	}
	// Build accepted: every input must parse with recursion depth bounded by the input length
	tripped := ""
	didTrip := false
	maxDepth := 0
	for _, in := range c08inputs {
		limit := 40 * (len(in) + 2)
		dg := &depthGuard{limit: limit}
		var trip *guardTrip
		func() {
			defer func() {
				if r := recover(); r != nil {
					if gt, ok := r.(guardTrip); ok {
						trip = &gt
					}
					// other panics (library diagnostics for nullable loops) are not this property's business
				}
			}()
			_, _ = p.ParseString("", in, participle.Trace(dg))
		}()
		w.Count("transitions", 1)
		if dg.max > maxDepth {
			maxDepth = dg.max
		}
		if os.Getenv("C08_DEBUG") != "" {
			fmt.Fprintf(os.Stderr, "in=%q maxdepth=%d trip=%v\n", in, dg.max, trip)
		}
		if trip != nil {
			tripped = in
			didTrip = true
			break
		}
	}
	w.Count("traces_validated_against_impl", 1)
	if didTrip {
		if expected {
			w.Violate(hx.Violation{Key: key + fmt.Sprintf(" :: in=%q", tripped), Class: "left-recursive-grammar-accepted", Detail: map[string]any{"cycle": cyc, "witness_input": tripped, "note": "Parse recursed deeper than 40*(len+2) frames without consuming input"}})
		} else {
			// The recursion guard is a witness of its own: the trace went deeper than 40*(len+2) levels, more than
			// the grammar's few productions can nest between two consumed tokens. Either the decision procedure
			// overlooks a way of matching nothing (then Build overlooked it too), or the parser re-enters a
			// production without having advanced although the grammar says it must have.
			w.Violate(hx.Violation{Key: key + fmt.Sprintf(" :: in=%q", tripped), Class: "accepted-grammar-recurses-without-consuming", Detail: map[string]any{"witness_input": tripped, "note": "Build accepted the grammar, the independent decision procedure finds no left recursion either, and Parse recursed deeper than 40*(len+2) frames"}})
		}
		return
	}
	if expected {
		w.Count("unconfirmed:procedure says left-recursive, Build accepts, no input up to length 4 recursed without bound", 1)
		w.Note("unconfirmed_example", key)
	}
	if len(rg.structs) > 1 && !expected {
		w.Sample(map[string]any{"grammar": rg.root.Source(), "build": "accepted", "max_trace_depth_over_all_inputs": maxDepth})
	}
}

func minInt(a, b int) int {
	if a < b {
		return a
	}
	return b
}

func planC08(c *hx.Ctx) *hx.Plan {
	// grammars that repeat a body which can match nothing are parsed as well: the library gives up on such a
	// repetition after MaxIterations rounds, so the limit is lowered to keep those parses cheap
	participle.MaxIterations = 64
	gs := c08grammars(c.Quick())
	return &hx.Plan{
		N:        len(gs),
		Job:      func(w *hx.Worker, i int) { runC08(w, gs[i], "") },
		Describe: func(i int) string { return c08key(gs[i]()) },
		Rule:     "1-3 mutually referring productions (each a union with one struct member, so reflect.StructOf can build the recursion); bodies are all terms of up to 2 leaves (3 on a reduced leaf set) over {\"x\", @@P0, @@P1, @@P2} with every modifier (incl. non-empty groups `( e? )!` whose body is nullable), plain groups, (?= ), (?! ) and ~ on the leaves, crossed with menus of bodies for the other productions. An independent decision procedure (nullability fixpoint + left-edge call graph + cycle test) gives the expected verdict; every grammar Build accepts is parsed on every input up to length 4 over {x,y,z,space} (Space is elided) under a recursion-depth guard (Trace writer) as dynamic cross-validation. evaluations = grammars",
		Bounds:   map[string]any{"inputs_per_accepted_grammar": len(c08inputs), "depth_limit": "40*(len(input)+2) trace levels"},
		Assume:   []string{"an accepted left-recursive grammar is reported only with a concrete input on which the parser recurses without bound; without one it is listed as unconfirmed", "over-rejection rests on the decision procedure alone"},
	}
}

func replayC08(c *hx.Ctx, key string) []hx.Violation {
	participle.MaxIterations = 64
	w := hx.NewReplayWorker()
	for _, q := range []bool{true, false} {
		for _, mk := range c08grammars(q) {
			runC08(w, mk, key)
		}
		if len(w.Violations()) > 0 {
			break
		}
	}
	return w.Violations()
}
