// buildx: Build-time properties. C19: Build never panics/hangs and classifies malformed tags
// (exhaustive tag-token soup, single-token edits of valid seeds, field-type matrix, static corpus,
// options). C08: left recursion is rejected exactly (recursive production families built through
// static interface types, cross-validated by depth-guarded parsing).
package main

import (
	"fmt"
	"os"
	"reflect"
	"strings"
	"time"

	"github.com/alecthomas/participle/v2"
	"github.com/alecthomas/participle/v2/lexer"

	"verif/mc/internal/hx"
)

var lexDef = lexer.MustSimple([]lexer.SimpleRule{
	{Name: "Ident", Pattern: `[a-zA-Z]`},
	{Name: "Int", Pattern: `[0-9]`},
	{Name: "Punct", Pattern: `[;,]`},
	{Name: "Space", Pattern: ` `},
})

// ---------------------------------------------------------------- reference recogniser of the tag syntax

type class int

const (
	clValid     class = iota // documented syntax, known token types: must build
	clMalformed              // one of the property's named malformation classes: must return an error
	clOther                  // anything else: must only return
)

var alphabet = []string{"@", "@@", `"a"`, `'@'`, "Ident", "Nope", "(", ")", "[", "]", "{", "}", "|", "?", "*", "+", "!", "~", "(?=", "(?!", ":", "#", `"unterminated`, "'", "`raw", "'x"}

type rec struct {
	toks []string
	i    int
	// first problem found
	malformed string
	other     string
	usesSub   bool
}

func (r *rec) peek() string {
	if r.i < len(r.toks) {
		return r.toks[r.i]
	}
	return ""
}
func (r *rec) next() string { t := r.peek(); r.i++; return t }

func isLit(t string) bool { return t == `"a"` || t == `'@'` }
func startsTerm(t string) bool {
	switch t {
	case "@", "@@", `"a"`, `'@'`, "Ident", "Nope", "(", "[", "{", "~", "!", "(?=", "(?!":
		return true
	}
	return false
}
func isModifier(t string) bool { return t == "?" || t == "*" || t == "+" || t == "!" }

func (r *rec) fail(mal, other string) bool {
	if r.malformed == "" && r.other == "" {
		r.malformed, r.other = mal, other
	}
	return false
}

// disjunction := sequence ('|' sequence)*
func (r *rec) disjunction(closer string) bool {
	for {
		if !r.sequence(closer) {
			return false
		}
		if r.peek() != "|" {
			return true
		}
		r.next()
	}
}

func (r *rec) sequence(closer string) bool {
	n := 0
	for {
		t := r.peek()
		if t == "" || t == "|" || (closer != "" && t == closer) {
			break
		}
		if !startsTerm(t) {
			if isModifier(t) || t == "?" {
				return r.fail("modifier applied to nothing", "")
			}
			// stray closer, ':', '#', unterminated string ...
			return r.fail("", "unexpected token "+t)
		}
		if !r.term() {
			return false
		}
		n++
	}
	if n == 0 {
		return r.fail("empty alternative", "")
	}
	return true
}

func (r *rec) term() bool {
	if !r.base(true) {
		return false
	}
	if isModifier(r.peek()) {
		r.next()
	}
	return true
}

func (r *rec) base(allowCapture bool) bool {
	t := r.next()
	switch {
	case t == "@@":
		r.usesSub = true
		return true
	case t == "@":
		if !allowCapture {
			// a capture directly inside a capture/negation operand: the operand parser accepts it,
			// but the documentation does not describe it
			r.other = orStr(r.other, "capture as operand")
		}
		nt := r.peek()
		if nt == "@" || nt == "@@" || !startsTerm(nt) {
			return r.fail("capture applied to nothing", "")
		}
		return r.base(false)
	case isLit(t):
		if r.peek() == ":" {
			r.next()
			switch r.next() {
			case "Ident":
				return true
			case "Nope":
				return r.fail("unknown token type", "")
			default:
				return r.fail("", "bad literal type constraint")
			}
		}
		return true
	case t == "Ident":
		return true
	case t == "Nope":
		return r.fail("unknown token type", "")
	case t == "(" || t == "(?=" || t == "(?!":
		if !r.disjunction(")") {
			return false
		}
		if r.next() != ")" {
			return r.fail("unclosed group or lookahead", "")
		}
		return true
	case t == "[":
		if !r.disjunction("]") {
			return false
		}
		if r.next() != "]" {
			return r.fail("unclosed group", "")
		}
		return true
	case t == "{":
		if !r.disjunction("}") {
			return false
		}
		if r.next() != "}" {
			return r.fail("unclosed group", "")
		}
		return true
	case t == "~" || t == "!":
		nt := r.peek()
		if !startsTerm(nt) {
			return r.fail("negation applied to nothing", "")
		}
		return r.base(false)
	}
	return r.fail("", "unexpected token "+t)
}

func orStr(a, b string) string {
	if a != "" {
		return a
	}
	return b
}

// classify a whole token stream (the concatenation of all field tags).
func classify(toks []string) (class, string) {
	for _, t := range toks {
		if t == `"unterminated` || t == "#" || t == "'" || t == "`raw" || t == "'x" {
			return clOther, "lexically odd token"
		}
	}
	r := &rec{toks: toks}
	if len(toks) == 0 {
		return clMalformed, "no usable grammar field"
	}
	ok := r.disjunction("")
	if ok && r.i < len(toks) {
		ok = false
		r.fail("", "trailing "+r.peek())
	}
	if !ok {
		if r.malformed != "" {
			return clMalformed, r.malformed
		}
		return clOther, r.other
	}
	if r.other != "" || r.usesSub {
		return clOther, orStr(r.other, "@@ needs a struct field")
	}
	return clValid, ""
}

// ---------------------------------------------------------------- running Build

type buildOutcome struct {
	built    bool
	err      error
	panicked string
	both     bool
}

func tryBuild(v any, opts ...participle.Option) buildOutcome {
	var o buildOutcome
	all := append([]participle.Option{participle.Lexer(lexDef), participle.Union[any](v)}, opts...)
	pan, msg := hx.Guard(func() {
		p, err := participle.Build[any](all...)
		o.err = err
		o.built = p != nil
		o.both = (p != nil) == (err != nil)
	})
	if pan {
		o.panicked = msg
	}
	return o
}

func judge(w *hx.Worker, key string, cl class, why string, o buildOutcome) {
	w.Count("evaluations", 1)
	switch {
	case o.panicked != "":
		w.Violate(hx.Violation{Key: key, Class: "panic", Detail: map[string]any{"panic": o.panicked, "class": why}})
	case o.both:
		w.Violate(hx.Violation{Key: key, Class: "parser-and-error-both-or-neither", Detail: map[string]any{"err": fmt.Sprint(o.err)}})
	case cl == clValid && o.err != nil:
		w.Violate(hx.Violation{Key: key, Class: "valid-grammar-rejected", Detail: map[string]any{"err": o.err.Error()}})
	case cl == clMalformed && o.err == nil:
		w.Violate(hx.Violation{Key: key, Class: "malformed-grammar-accepted", Detail: map[string]any{"why": why}})
	}
	switch cl {
	case clValid:
		w.Count("must_build", 1)
	case clMalformed:
		w.Count("must_fail", 1)
	default:
		w.Count("must_return_only", 1)
	}
}

var strT = reflect.TypeOf("")

func structOf(form int, tags []string, ft reflect.Type) (v any, ok bool) {
	defer func() {
		if recover() != nil {
			ok = false
		}
	}()
	var fs []reflect.StructField
	for i, t := range tags {
		tag := t
		if form == 1 {
			tag = fmt.Sprintf("parser:%q", t)
		}
		fs = append(fs, reflect.StructField{Name: fmt.Sprintf("F%d", i), Type: ft, Tag: reflect.StructTag(tag)})
	}
	return reflect.New(reflect.StructOf(fs)).Elem().Interface(), true
}

// embedAt wraps the struct made of the tagged fields into `depth` levels of embedded (anonymous) structs:
// participle flattens embedded structs, so the grammar - and the expected class - is the same as for the flat one.
func embedAt(form int, tags []string, ft reflect.Type, depth int) (v any, ok bool) {
	defer func() {
		if recover() != nil {
			ok = false
		}
	}()
	flat, ok := structOf(form, tags, ft)
	if !ok {
		return nil, false
	}
	t := reflect.TypeOf(flat)
	for d := depth; d >= 1; d-- {
		t = reflect.StructOf([]reflect.StructField{{Name: fmt.Sprintf("L%d", d), Type: t, Anonymous: true}})
	}
	return reflect.New(t).Elem().Interface(), true
}

// sameNameEmbedded: struct{ L struct{ F T `tag0` }; M struct{ F T `tag1` } } with L and M embedded: both
// fields are called F (Go only objects when the ambiguous selector is used); the grammar is tag0 tag1.
func sameNameEmbedded(form int, tags []string, ft reflect.Type) (v any, ok bool) {
	defer func() {
		if recover() != nil {
			ok = false
		}
	}()
	var fs []reflect.StructField
	for i, t := range tags {
		tag := t
		if form == 1 {
			tag = fmt.Sprintf("parser:%q", t)
		}
		inner := reflect.StructOf([]reflect.StructField{{Name: "F", Type: ft, Tag: reflect.StructTag(tag)}})
		fs = append(fs, reflect.StructField{Name: fmt.Sprintf("L%d", i), Type: inner, Anonymous: true})
	}
	return reflect.New(reflect.StructOf(fs)).Elem().Interface(), true
}

// soupJob explores every token sequence that starts with the given first token.
func soupJob(w *hx.Worker, first int, maxLen int, only string) {
	// job index encodes one token (idx < len(alphabet)) or a two-token prefix
	seq := []int{first}
	exact := false
	if first >= len(alphabet) {
		first -= len(alphabet)
		seq = []int{first / len(alphabet), first % len(alphabet)}
	} else {
		exact = true // the one-token sequence only; longer ones belong to the two-token-prefix jobs
	}
	var rec func()
	rec = func() {
		toks := make([]string, len(seq))
		for i, x := range seq {
			toks[i] = alphabet[x]
		}
		cl, why := classify(toks)
		for form := 0; form < 2; form++ {
			for split := 0; split < len(toks); split++ {
				// split == 0: one field; otherwise two fields, cut before token `split`
				var tags []string
				if split == 0 {
					tags = []string{strings.Join(toks, " ")}
				} else {
					tags = []string{strings.Join(toks[:split], " "), strings.Join(toks[split:], " ")}
				}
				key := fmt.Sprintf("soup form=%d tags=%q", form, tags)
				if only != "" && only != key {
					continue
				}
				v, ok := structOf(form, tags, strT)
				if !ok {
					w.Count("struct_type_not_constructible", 1)
					continue
				}
				w.Case(func() string { return key })
				judge(w, key, cl, why, tryBuild(v))
				w.DistinctS(why + fmt.Sprint(cl))
				// the same fields inside 1, 3 and 5 levels of embedded structs: same token stream, same class
				if len(toks) <= 3 && split > 0 {
					for _, depth := range []int{1, 3, 5} {
						ke := fmt.Sprintf("soup form=%d tags=%q embedded-depth=%d", form, tags, depth)
						if only != "" && only != ke {
							continue
						}
						if ve, ok := embedAt(form, tags, strT, depth); ok {
							w.Case(func() string { return ke })
							judge(w, ke, cl, why, tryBuild(ve))
						} else {
							w.Count("struct_type_not_constructible", 1)
						}
					}
				}
				// the two fields promoted from two different embedded structs under ONE field name
				if len(toks) <= 3 && split > 0 {
					ks := fmt.Sprintf("soup form=%d tags=%q two-embedded-structs-same-field-name", form, tags)
					if only == "" || only == ks {
						if vs, ok := sameNameEmbedded(form, tags, strT); ok {
							w.Case(func() string { return ks })
							judge(w, ks, cl, why, tryBuild(vs))
						} else {
							w.Count("struct_type_not_constructible", 1)
						}
					}
				}
				// the same fields with a tagged field whose tag yields NO tokens (blank / comment only) in front,
				// in between and behind: the token stream is unchanged, so is the expected class
				if len(toks) <= 2 {
					for _, blank := range []string{" ", "/* reserved */"} {
						for pos := 0; pos <= len(tags); pos++ {
							t3 := append(append(append([]string{}, tags[:pos]...), blank), tags[pos:]...)
							k3 := fmt.Sprintf("soup form=%d tags=%q", form, t3)
							if only != "" && only != k3 {
								continue
							}
							if v3, ok := structOf(form, t3, strT); ok {
								w.Case(func() string { return k3 })
								judge(w, k3, cl, why, tryBuild(v3))
							}
						}
					}
				}
			}
		}
		if len(seq) < maxLen && !exact {
			for x := range alphabet {
				seq = append(seq, x)
				rec()
				seq = seq[:len(seq)-1]
			}
		}
	}
	rec()
}

// ---------------------------------------------------------------- seeds and single-token edits

var seeds = [][]string{
	{"@", "Ident"}, {"@", `"a"`}, {`"a"`, "@", "Ident"}, {"@", "Ident", "*"}, {"(", "@", "Ident", ")", "*"},
	{"@", "(", "Ident", "|", `"a"`, ")"}, {`"a"`, "|", "@", "Ident"}, {"[", "@", "Ident", "]"}, {"{", "@", "Ident", "}"},
	{"(", `"a"`, "@", "Ident", ")", "?"}, {"(", `"a"`, "|", "Ident", ")", "+", "@", "Ident"}, {"@", "(", `"a"`, "Ident", ")", "!"},
	{"~", `"a"`}, {"@", "~", `"a"`}, {"!", "Ident", "@", "Ident"}, {"(?=", `"a"`, ")", "@", "Ident"}, {"(?!", `"a"`, "Ident", ")", "@", "Ident"},
	{`"a"`, ":", "Ident"}, {"@", `"a"`, ":", "Ident"}, {"@", "Ident", "(", `'@'`, "@", "Ident", ")", "*"},
	{"(", "(", "@", "Ident", ")", ")"}, {"[", "{", "@", "Ident", "}", "]"}, {"@", "Ident", "|", "@", `"a"`, "|", "@", `'@'`},
	{"(", "@", "Ident", "|", `"a"`, ")", "(", "@", "Ident", ")", "?"}, {"~", "(", `"a"`, "|", `'@'`, ")", "@", "Ident"},
	{"@", "(", "~", `"a"`, ")", "*"}, {"(?=", "Ident", "Ident", ")", "@", "Ident", "@", "Ident"}, {`"a"`, "?", `'@'`, "*", "@", "Ident", "+"},
	{"@", "(", "Ident", ")", "?"}, {"(", "@", "Ident", ")", "!"}, {"{", `"a"`, "|", "@", "Ident", "}"}, {"[", `"a"`, "]", "[", "@", "Ident", "]"},
}

func editsJob(w *hx.Worker, si int, only string) {
	seed := seeds[si]
	try := func(toks []string, what string) {
		cl, why := classify(toks)
		for form := 0; form < 2; form++ {
			key := fmt.Sprintf("edit form=%d seed=%q %s -> %q", form, strings.Join(seed, " "), what, strings.Join(toks, " "))
			if only != "" && only != key {
				continue
			}
			v, ok := structOf(form, []string{strings.Join(toks, " ")}, reflect.TypeOf([]string{}))
			if !ok {
				continue
			}
			judge(w, key, cl, why, tryBuild(v))
			w.DistinctS(why + fmt.Sprint(cl))
			if len(toks) > 3 {
				w.Sample(map[string]any{"seed": strings.Join(seed, " "), "edit": what, "tag": strings.Join(toks, " "), "expected": []string{"must build", "must fail: " + why, "must return"}[cl]})
			}
		}
	}
	try(seed, "unchanged")
	for i := 0; i <= len(seed); i++ {
		for _, a := range alphabet {
			ins := append(append(append([]string{}, seed[:i]...), a), seed[i:]...)
			try(ins, fmt.Sprintf("insert %s at %d", a, i))
			if i < len(seed) {
				rep := append(append(append([]string{}, seed[:i]...), a), seed[i+1:]...)
				try(rep, fmt.Sprintf("replace %d by %s", i, a))
			}
		}
		if i < len(seed) {
			del := append(append([]string{}, seed[:i]...), seed[i+1:]...)
			try(del, fmt.Sprintf("delete %d", i))
		}
	}
}

// ---------------------------------------------------------------- field types x capture kinds

type subOK struct {
	V string `@Ident`
}
type embedded struct {
	E string `@Ident`
}
type iface interface{ isIface() }

func typesJob(w *hx.Worker) {
	anon := reflect.StructOf([]reflect.StructField{{Name: "A", Type: strT, Tag: `@Ident`}})
	types := []struct {
		name string
		t    reflect.Type
	}{
		{"string", strT}, {"*string", reflect.PtrTo(strT)}, {"[]string", reflect.SliceOf(strT)}, {"int", reflect.TypeOf(0)}, {"bool", reflect.TypeOf(false)},
		{"float64", reflect.TypeOf(0.0)}, {"lexer.Token", reflect.TypeOf(lexer.Token{})}, {"[]lexer.Token", reflect.TypeOf([]lexer.Token{})},
		{"map", reflect.TypeOf(map[string]string{})}, {"chan", reflect.TypeOf(make(chan int))}, {"func", reflect.TypeOf(func() {})}, {"array", reflect.TypeOf([2]string{})},
		{"interface{}", reflect.TypeOf((*interface{})(nil)).Elem()}, {"iface", reflect.TypeOf((*iface)(nil)).Elem()}, {"anonymous struct", anon}, {"*anonymous struct", reflect.PtrTo(anon)},
		{"struct", reflect.TypeOf(subOK{})}, {"*struct", reflect.TypeOf(&subOK{})}, {"[]*struct", reflect.TypeOf([]*subOK{})}, {"**struct", reflect.PtrTo(reflect.TypeOf(&subOK{}))}, {"[][]string", reflect.TypeOf([][]string{})},
		{"lexer.Position", reflect.TypeOf(lexer.Position{})}, {"uint8", reflect.TypeOf(uint8(0))}, {"[]int", reflect.TypeOf([]int{})}, {"[]bool", reflect.TypeOf([]bool{})},
	}
	tags := []string{`@Ident`, `@@`, `@"a"*`, `@(Ident Ident)`, `"a"`, `@@*`, `@Ident?`, `(@@ | "a")`, `@@ "a" @@`, `@~"a"`, `[ @@ ]`, `{ @Ident }`}
	supported := map[string]bool{"string": true, "*string": true, "[]string": true, "int": true, "bool": true, "float64": true, "lexer.Token": true, "[]lexer.Token": true, "uint8": true, "[]int": true, "[]bool": true}
	for _, ty := range types {
		for _, tag := range tags {
			for _, shape := range []string{"plain", "unexported", "embedded-first"} {
				key := fmt.Sprintf("types field=%s tag=%q shape=%s", ty.name, tag, shape)
				var fs []reflect.StructField
				switch shape {
				case "plain":
					fs = []reflect.StructField{{Name: "F", Type: ty.t, Tag: reflect.StructTag(tag)}}
				case "unexported":
					fs = []reflect.StructField{{Name: "f", PkgPath: "verif/x", Type: ty.t, Tag: reflect.StructTag(tag)}, {Name: "G", Type: strT, Tag: `@Ident`}}
				case "embedded-first":
					fs = []reflect.StructField{{Name: "Embedded", Type: reflect.TypeOf(embedded{}), Anonymous: true}, {Name: "F", Type: ty.t, Tag: reflect.StructTag(tag)}}
				}
				var v any
				ok := true
				func() {
					defer func() {
						if recover() != nil {
							ok = false
						}
					}()
					v = reflect.New(reflect.StructOf(fs)).Elem().Interface()
				}()
				if !ok {
					w.Count("struct_type_not_constructible", 1)
					continue
				}
				cl := clOther
				if shape == "plain" && supported[ty.name] && !strings.Contains(tag, "@@") {
					cl = clValid
				}
				if shape == "plain" && (ty.name == "*struct" || ty.name == "struct" || ty.name == "[]*struct") && (tag == `@@` || tag == `@@*` || tag == `[ @@ ]` || tag == `(@@ | "a")` || tag == `@@ "a" @@`) {
					cl = clValid
				}
				judge(w, key, cl, "", tryBuild(v))
				w.DistinctS(key)
			}
		}
	}
}

// ---------------------------------------------------------------- static corpus (types reflect.StructOf cannot make)

type RightRec struct {
	Head string    `@Ident`
	Tail *RightRec `@@?`
}
type LeftRec struct {
	Left *LeftRec `@@ "x"`
	V    string   `| @Ident`
}
type MutA struct {
	B *MutB `"(" @@ ")"`
}
type MutB struct {
	A *MutA  `@@`
	V string `| @Ident`
}
type MutLeftA struct {
	B *MutLeftB `@@ "x"`
}
type MutLeftB struct {
	A *MutLeftA `@@`
	V string    `| @Ident`
}
type SliceRec struct {
	Kids []*SliceRec `"(" @@* ")"`
}
type ViaSlices struct {
	Kids [][]*ViaSlices `@@`
}
type IfaceNoUnion struct {
	V iface `@@`
}
type EmptyStruct struct{}
type NoTags struct {
	A string
	B int
}
type OnlyUnexported struct {
	a string `@Ident` //nolint
}
type AnonField struct {
	Inner struct {
		V string `@Ident`
	} `@@`
}
type AnonRec struct {
	Inner *struct {
		V    string   `@Ident`
		Back *AnonRec `@@?`
	} `@@`
}
type EmbeddedPtr struct {
	*embedded
	V string `@Ident`
}
type SelfEmbed struct {
	V    string `@Ident`
	Next *SelfEmbed
}
type DeepPtr struct {
	V ***string `@Ident`
}
type BadThenRec struct {
	A *BadThenRec `@@ (`
}
type NegStruct struct {
	N *RightRec `~@@`
}
type LookRec struct {
	L *LookRec `(?= @@ ) "x"`
}

// a union member that refers to a type parsed by a custom function (Union + ParseTypeWith together)
type CustomNum interface{ customNum() }
type UVal interface{ uval() }
type UNum struct {
	Num CustomNum `@@`
}
type UWord struct {
	W string `@Ident`
}

func (UNum) uval()  {}
func (UWord) uval() {}

type UnionAndCustom struct {
	Vals []UVal `@@*`
}

// fields that opt out of the grammar with an empty parser key
type OptOut struct {
	A       string `@Ident`
	Ignored string `parser:"" json:"ignored"`
	B       string `parser:"@Ident" json:"b"`
}
type StmtRoot struct {
	E *LRExpr `@@ ";"`
}
type LRExpr struct {
	V string  `( @Ident`
	L *LRExpr `| @@ "+" Ident )`
}
type StmtRoot2 struct {
	A string  `"pass" ";"`
	E *LRExpr `| @@ ";"`
}
type StarSelf struct {
	S []*StarSelf `@@*`
	X string      `"x"`
}

// recursion through more than one level of slice / pointer
type TreePS struct {
	Name     string     `@Ident`
	Children *[]*TreePS `( "(" @@* ")" )?`
}
type TreePP struct {
	Name string   `@Ident`
	Next **TreePP `@@?`
}
type TreeSS struct {
	Name string      `@Ident`
	Kids [][]*TreeSS `( "(" @@* ")" )?`
}

// capture targets that convert themselves (pointer receivers), alone and as slice elements
type capStruct struct{ S string }

func (c *capStruct) Capture(values []string) error { c.S = strings.Join(values, ""); return nil }

type txtStruct struct{ S string }

func (t *txtStruct) UnmarshalText(b []byte) error { t.S = string(b); return nil }

type CapOne struct {
	V capStruct `@Ident`
}
type CapPtr struct {
	V *capStruct `@Ident`
}
type CapSlice struct {
	V []capStruct `@Ident*`
}
type CapPtrSlice struct {
	V []*capStruct `@Ident*`
}
type TxtOne struct {
	V txtStruct `@Ident`
}
type TxtSlice struct {
	V []txtStruct `@Ident*`
}
type TxtPtrSlice struct {
	V []*txtStruct `@Ident*`
}

var corpus = []struct {
	name string
	v    any
	cl   class
}{
	{"TreePS (recursion through *[]*T)", TreePS{}, clOther}, {"TreePP (recursion through **T)", TreePP{}, clOther}, {"TreeSS (recursion through [][]*T)", TreeSS{}, clOther},
	{"CapOne", CapOne{}, clValid}, {"CapPtr", CapPtr{}, clValid}, {"CapSlice", CapSlice{}, clValid}, {"CapPtrSlice", CapPtrSlice{}, clValid},
	{"TxtOne", TxtOne{}, clValid}, {"TxtSlice", TxtSlice{}, clValid}, {"TxtPtrSlice", TxtPtrSlice{}, clValid},
	{"RightRec", RightRec{}, clValid}, {"LeftRec", LeftRec{}, clOther}, {"MutA", MutA{}, clValid}, {"MutLeftA", MutLeftA{}, clOther},
	{"SliceRec", SliceRec{}, clValid}, {"ViaSlices", ViaSlices{}, clOther}, {"IfaceNoUnion", IfaceNoUnion{}, clOther}, {"EmptyStruct", EmptyStruct{}, clMalformed},
	{"NoTags", NoTags{}, clMalformed}, {"OnlyUnexported", OnlyUnexported{}, clMalformed}, {"AnonField", AnonField{}, clOther}, {"AnonRec", AnonRec{}, clOther},
	{"EmbeddedPtr", EmbeddedPtr{}, clOther}, {"SelfEmbed", SelfEmbed{}, clValid}, {"DeepPtr", DeepPtr{}, clOther}, {"BadThenRec", BadThenRec{}, clMalformed},
	{"NegStruct", NegStruct{}, clOther}, {"LookRec", LookRec{}, clOther}, {"StarSelf", StarSelf{}, clOther},
	{"StmtRoot (left recursion below the root)", StmtRoot{}, clOther}, {"StmtRoot2", StmtRoot2{}, clOther},
	{"OptOut (parser:\"\" opts a field out)", OptOut{}, clValid},
	{"*RightRec", &RightRec{}, clValid}, {"string", "x", clOther}, {"int", 3, clOther}, {"[]RightRec", []RightRec{}, clOther}, {"map", map[string]int{}, clOther}, {"nil-func", (func())(nil), clOther},
}

func unionCustomJob(w *hx.Worker) {
	custom := participle.ParseTypeWith(func(lex *lexer.PeekingLexer) (CustomNum, error) { return nil, participle.NextMatch })
	union := participle.Union[UVal](UNum{}, UWord{})
	for i, opts := range [][]participle.Option{{custom, union}, {union, custom}} {
		key := fmt.Sprintf("corpus type=UnionAndCustom opts=Union+ParseTypeWith order=%d", i)
		judge(w, key, clValid, "", tryBuild(UnionAndCustom{}, opts...))
		w.DistinctS(key)
	}
	judge(w, "corpus type=UnionAndCustom opts=Union only", clOther, "", tryBuild(UnionAndCustom{}, union))
}

// a non-recursive grammar in which every level refers to the next one twice (a diamond at every level): the
// number of reference PATHS doubles per level, the number of productions does not.
type twLeaf struct {
	V string `@Ident`
}
type twL[T any] struct {
	A *T `"a" @@`
	B *T `| "(" @@ ")"`
}

var towers = []struct {
	levels int
	v      any
}{
	{4, twL[twL[twL[twL[twLeaf]]]]{}},
	{16, twL[twL[twL[twL[twL[twL[twL[twL[twL[twL[twL[twL[twL[twL[twL[twL[twLeaf]]]]]]]]]]]]]]]]{}},
	{36, twL[twL[twL[twL[twL[twL[twL[twL[twL[twL[twL[twL[twL[twL[twL[twL[twL[twL[twL[twL[twL[twL[twL[twL[twL[twL[twL[twL[twL[twL[twL[twL[twL[twL[twL[twL[twLeaf]]]]]]]]]]]]]]]]]]]]]]]]]]]]]]]]]]]]{}},
}

func corpusJob(w *hx.Worker) {
	unionCustomJob(w)
	for _, tw := range towers {
		key := fmt.Sprintf("corpus type=tower of %d levels, each referring to the next twice", tw.levels)
		judge(w, key, clValid, "", tryBuild(tw.v))
		w.DistinctS(key)
	}
	// options may be listed in any order: a mapper for a token type of the lexer that is named AFTER it
	for i, opts := range [][]participle.Option{
		{participle.Upper("Punct"), participle.Lexer(lexDef), participle.Union[any](RightRec{})},
		{participle.Unquote("Punct"), participle.Elide("Space"), participle.Lexer(lexDef), participle.Union[any](RightRec{})},
		{participle.Union[any](RightRec{}), participle.Map(func(t lexer.Token) (lexer.Token, error) { return t, nil }, "Space", "Punct"), participle.Lexer(lexDef)},
	} {
		key := fmt.Sprintf("corpus type=RightRec options listed before Lexer(), variant %d", i)
		var o buildOutcome
		pan, msg := hx.Guard(func() {
			p, err := participle.Build[any](opts...)
			o.err = err
			o.built = p != nil
			o.both = (p != nil) == (err != nil)
		})
		if pan {
			o.panicked = msg
		}
		judge(w, key, clValid, "", o)
		w.DistinctS(key)
	}
	for _, c := range corpus {
		key := "corpus type=" + c.name
		judge(w, key, c.cl, "", tryBuild(c.v))
		w.DistinctS(key)
		// options
		optsets := []struct {
			name string
			opts []participle.Option
			cl   class
		}{
			{"Map(unknown symbol)", []participle.Option{participle.Map(func(t lexer.Token) (lexer.Token, error) { return t, nil }, "Nope")}, clMalformed},
			{"Unquote(unknown)", []participle.Option{participle.Unquote("Nope")}, clMalformed},
			{"Upper(Ident)", []participle.Option{participle.Upper("Ident")}, c.cl},
			{"Union[non-interface]", []participle.Option{participle.Union[string]("a")}, clMalformed},
			{"Union[iface] twice", []participle.Option{participle.Union[iface](), participle.Union[iface]()}, clMalformed},
			{"ParseTypeWith twice", []participle.Option{participle.ParseTypeWith(func(*lexer.PeekingLexer) (iface, error) { return nil, nil }), participle.ParseTypeWith(func(*lexer.PeekingLexer) (iface, error) { return nil, nil })}, clMalformed},
			{"CaseInsensitive(unknown)", []participle.Option{participle.CaseInsensitive("Nope")}, clOther},
			{"UseLookahead(-5)", []participle.Option{participle.UseLookahead(-5)}, c.cl},
			{"Elide(Space)", []participle.Option{participle.Elide("Space")}, c.cl},
		}
		for _, os := range optsets {
			cl := os.cl
			if c.cl == clMalformed {
				cl = clMalformed
			}
			if c.cl == clOther && cl == clValid {
				cl = clOther
			}
			judge(w, key+" opts="+os.name, cl, "", tryBuild(c.v, os.opts...))
		}
	}
}

// ---------------------------------------------------------------- plan

type c19job struct {
	kind string
	idx  int
}

func c19jobs() []c19job {
	var js []c19job
	for i := 0; i < len(alphabet)+len(alphabet)*len(alphabet); i++ {
		js = append(js, c19job{"soup", i})
	}
	for i := range seeds {
		js = append(js, c19job{"edits", i})
	}
	js = append(js, c19job{"types", 0}, c19job{"corpus", 0})
	return js
}

func plan(c *hx.Ctx) *hx.Plan {
	if c.Prop == "C08" {
		return planC08(c)
	}
	maxLen := 4 // every soup is a distinct reflect.StructOf type, which the runtime keeps for ever: length 5 (1.2e7 soups x forms x splits) needs more than 60 GB
	if c.Quick() {
		maxLen = 3
	}
	if c.Extra["souplen"] != "" {
		fmt.Sscan(c.Extra["souplen"], &maxLen)
	}
	js := c19jobs()
	return &hx.Plan{
		N: len(js),
		Job: func(w *hx.Worker, i int) {
			switch js[i].kind {
			case "soup":
				soupJob(w, js[i].idx, maxLen, "")
			case "edits":
				editsJob(w, js[i].idx, "")
			case "types":
				typesJob(w)
			case "corpus":
				corpusJob(w)
			}
		},
		Describe: func(i int) string { return fmt.Sprintf("%s#%d", js[i].kind, js[i].idx) },
		Rule:     "(a) every sequence of tag tokens up to the length bound over the 23-token alphabet {@ @@ \"a\" '@' Ident Nope ( ) [ ] { } | ? * + ! ~ (?= (?! : # unterminated-string}, as one field and split over two fields at every position, in whole-tag and parser:\"...\" form, as struct types made with reflect.StructOf (two-field splits of up to 3 tokens also inside 1, 3 and 5 levels of embedded structs); (b) every single-token insertion/deletion/replacement applied to 32 valid seed tags; (c) 25 field types x 12 tags x {plain, unexported neighbour, embedded neighbour}; (d) a static corpus of recursive / mutually recursive / anonymous / interface-typed declarations x option sets (unknown symbols, bad unions, duplicate custom parsers). A reference recogniser of the documented tag syntax classifies each case as must-build / must-fail (the property's named malformation classes) / must-return. evaluations = Build calls",
		Bounds:   map[string]any{"soup_max_tokens": maxLen, "alphabet": alphabet, "seeds": len(seeds)},
		Assume:   []string{"Elide() of an unknown token type panics at parse time by design (configuration error, not enumerated)", "struct types that reflect.StructOf cannot construct are skipped (counted)"},
	}
}

func replay(c *hx.Ctx, key string) []hx.Violation {
	w := hx.NewReplayWorker()
	if c.Prop == "C08" {
		return replayC08(c, key)
	}
	switch {
	case strings.HasPrefix(key, "soup "):
		for i := 0; i < len(alphabet)+len(alphabet)*len(alphabet); i++ {
			soupJob(w, i, 5, key)
		}
	case strings.HasPrefix(key, "edit "):
		for i := range seeds {
			editsJob(w, i, key)
		}
	case strings.HasPrefix(key, "types "):
		typesJob(w)
	default:
		corpusJob(w)
	}
	var out []hx.Violation
	for _, v := range w.Violations() {
		if v.Key == key {
			out = append(out, v)
		}
	}
	return out
}

func main() {
	// the watchdog only has to tell a hang from work: thorough soup jobs are ~40 s of work each on an idle
	// machine and several times that next to other load
	jt := 90 * time.Second
	if os.Getenv("VERIF_TIER") == "thorough" {
		jt = 15 * time.Minute
	}
	for i, a := range os.Args {
		if a == "thorough" && i > 0 && strings.HasSuffix(os.Args[i-1], "tier") {
			jt = 15 * time.Minute
		}
	}
	hx.Main(&hx.Spec{Engine: "buildx", JobTimeout: jt, Levels: map[string]string{"C19": "model_checking", "C08": "model_checking"}, Plan: plan, Replay: replay})
}
