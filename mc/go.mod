module verif/mc

go 1.18

require github.com/alecthomas/participle/v2 v2.1.1

replace github.com/alecthomas/participle/v2 => /repo
