#!/bin/bash
# tools/seed_batch.sh <prop> <k...>   - verifies /tmp/mut-<prop>-<k> using its DEMO.json; extra checks via SEED_CHECKS
cd /verif
prop=$1; shift
for k in "$@"; do
  d=${MUT_PREFIX:-/tmp/mut-}$prop-$k
  dest=$(jq -r .dest $d/DEMO.json); cmd=$(jq -r .cmd $d/DEMO.json)
  echo "== $prop-$k dest=$dest cmd=$cmd"
  tools/seed_verify.sh $d $prop $prop-${ID_INFIX:-}$k "$dest" "$cmd"
done
