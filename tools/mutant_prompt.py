#!/usr/bin/env python3
# prints the sub-agent prompt for one property id: only the property text + worktree path
import json,sys
pid=sys.argv[1]; wt=sys.argv[2]
for l in open('/verif/properties.jsonl'):
    p=json.loads(l)
    if p['id']==pid: break
print(f"""You are helping to evaluate a test-adequacy study of the Go library alecthomas/participle (a parser library). You have your own scratch git worktree of the repository at {wt} (a detached checkout of the pinned commit). Work ONLY inside {wt} (and, for throw-away files, under /tmp/scratch-{pid}); never touch /repo or /verif and do not read anything under /verif.

Environment: no network. Prefix every go command with:
  export GOFLAGS=-mod=mod GOPROXY=off GOSUMDB=off GOTOOLCHAIN=local
The repository's existing test suite is run as:
  (cd {wt} && go test -vet=off -count=1 ./...) && (cd {wt}/cmd/participle && go test -vet=off -count=1 ./...)

The semantic property under study:

  Title: {p['title']}
  Statement: {p['statement']}
  Quantified over: {p['quantifier']['text']}
  Relevant files: {', '.join(p['anchors']['files'])}

Your task: produce {{N}} DIFFERENT small source changes (mutations) to the library (non-test .go files or the code generation template), each of which
  (a) still compiles, and the whole existing test suite above still passes unchanged (you MUST run it and confirm);
  (b) genuinely breaks the property above (a real behavioural violation a user could observe through the public API), and
  (c) needs something SPECIFIC to manifest - a particular interleaving, a multi-step sequence of operations, an unusual input shape, a boundary value, or two cooperating sites that each look fine alone - i.e. NOT something ordinary use would expose at once. Think of realistic bugs a maintainer could introduce in a refactor: an off-by-one in a cursor, state hoisted to a shared scope, a missed case in a switch, a boundary check, an ordering slip, a cache key mistake, etc. Prefer subtle ones.
For each mutation also write a demonstration: a small Go test file (package-external or internal _test.go placed in the worktree) or small program that FAILS with the mutation applied and PASSES on the unmodified code. Verify both directions yourself.

Deliverables: for mutation k (k=1..N) create the directory /tmp/mut-{pid}-k/ containing
  patch.diff   - `git diff` of ONLY the library change (not the demo test), applicable with `git apply` from the repo root
  demo_test.go (or demo/main.go) - the demonstration, plus a file DEMO.txt saying exactly where to place it in the repo and the command to run it,
                 and a machine-readable DEMO.json of the form {{"dest": "<path of the demo file relative to the repo root>", "cmd": "<shell command, run from the repo root, that exits 0 iff the demonstration passes>"}}
  NOTES.txt    - one paragraph: what the change is, why the existing tests miss it, what is needed for it to manifest, and the output you observed with and without the mutation.
When finished, leave the worktree clean (git checkout -- . ; remove added files) and reply with a brief list of the mutations. Do not ask questions; make your own decisions.""")
