#!/usr/bin/env python3
import json,collections,sys
prop=sys.argv[1]; tier=sys.argv[2] if len(sys.argv)>2 else 'quick'; n=int(sys.argv[3]) if len(sys.argv)>3 else 3
v=json.load(open(f'/verif/build/last/{prop}.{tier}.violations.json'))
c=collections.Counter((x['key'].split(' :: ')[0],x['class']) for x in v)
print(c)
seen=collections.Counter()
for x in v:
    k=(x['key'].split(' :: ')[0],x['class'])
    seen[k]+=1
    if seen[k]>n: continue
    print(k, x['key'][:400]); print('   ',json.dumps(x['detail'])[:600])
