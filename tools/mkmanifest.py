#!/usr/bin/env python3
# Generates MANIFEST.json from the table below (kept in one place so it stays valid).
import json
ENG={'C12':'peekx','C01':'gramx','C02':'gramx','C10':'gramx','C11':'gramx','C13':'gramx','C03':'lexx','C04':'lexx','C07':'lexx','C16':'lexx','C05':'genx','C06':'totalx','C08':'buildx','C19':'buildx','C09':'schedx','C14':'ebnfx','C15':'entryx','C17':'convx','C18':'convx'}
CHECKS=json.load(open('/verif/tools/checks.json'))
props=[json.loads(l) for l in open('/verif/properties.jsonl')]
checks=[];na=[]
for p in props:
    pid=p['id']
    c=CHECKS.get(pid)
    if not c or not c.get('claimed'):
        na.append({"property_id":pid,"reason":(c or {}).get('reason',"check not built yet in this session; see DESIGN.md for the planned engine")})
        continue
    checks.append({"property_id":pid,"quick_cmd":f"./run check {pid} quick","thorough_cmd":f"./run check {pid} thorough",
      "evidence_file":f"/verif/evidence/{pid}.json","replay_cmd_template":"./run replay {path}","engine":ENG[pid],
      "level_claimed":{"category":c['level'],"text":c['text'],"design_ref":c['design_ref']},"level_note":c['note'],"technique":c['technique']})
engines=sorted(set(ENG[c['property_id']] for c in checks))
m={"version":1,"setup_cmd":"./run setup",
 "hooks":{"guard":"verif","enable":"no hooks are committed in /repo: instrumentation (scheduler shim, batch generator entry) is generated at check time from the current working tree and injected with `go build -overlay`; overlay files carry the build tag `verif`","baseline_off_cmd":"cd /repo && export GOFLAGS=-mod=mod GOPROXY=off GOSUMDB=off GOTOOLCHAIN=local && go test -vet=off -count=1 ./... && cd cmd/participle && go test -vet=off -count=1 ./...","source_commits":[],"add_only":True},
 "engines":[{"name":e,"path":f"mc/cmd/{e}","serves_properties":[c['property_id'] for c in checks if c['engine']==e],"kind_free_text":"hand-written bounded exhaustive explorer in Go driving the real code (stateless model checking); see DESIGN.md"} for e in engines],
 "checks":checks,
 "notes":"All checks rebuild their explorer against /repo's working tree (go.mod replace) on every invocation. VERIF_REPO/VERIF_OUT select a scratch worktree / output directory when trying property-breaking changes.",
 "not_applicable":na}
json.dump(m,open('/verif/MANIFEST.json','w'),indent=1)
print(len(checks),"claimed;",len(na),"not claimed")
