#!/usr/bin/env python3
# tools/mutant_round.py <round> <prop> <N>: creates /tmp/wt<round>-<prop> (detached worktree of /repo HEAD),
# /tmp/scratch<round>-<prop>, and prints the prompt for a fresh sub-agent (property text + earlier changes to avoid)
import json,sys,subprocess,os,glob
rnd,pid,n=sys.argv[1],sys.argv[2],sys.argv[3]
wt=f"/tmp/wt{rnd}-{pid}"; sc=f"/tmp/scratch{rnd}-{pid}"
if not os.path.isdir(wt):
    subprocess.check_call(["git","-C","/repo","worktree","add","--detach",wt,"HEAD"],stdout=subprocess.DEVNULL,stderr=subprocess.DEVNULL)
os.makedirs(sc,exist_ok=True)
base=subprocess.check_output(["python3","/verif/tools/mutant_prompt.py",pid,wt],text=True)
base=base.replace("{N}",n).replace(f"/tmp/scratch-{pid}",sc).replace(f"/tmp/mut-{pid}-k/",f"/tmp/mut{rnd}-{pid}-k/")
earlier=[]
for d in sorted(glob.glob(f"/verif/seeded/{pid}-*")):
    try: m=json.load(open(d+"/meta.json"))
    except Exception: continue
    earlier.append("  - "+m.get("needs","").replace("\n"," ")[:330])
print(base)
print(f"""
Additional rules for this round:
* NEVER use `git stash` (the stash is shared between all worktrees of this repository and other people are working in sibling worktrees); to switch between clean and mutated code save your change with `git diff > {sc}/x.diff`, `git checkout -- .`, and re-apply with `git apply`.
* When you run the conformance tests set a private GOBIN (export GOBIN={sc}/bin) because scripts/participle installs a binary into GOBIN and sibling worktrees do the same.
* The following changes were already produced in earlier rounds; produce changes of a DIFFERENT KIND that touch different mechanisms/code sites (look through all the relevant files, including less obvious ones, and think about interactions between two features, state shared between calls or objects, and histories of several operations rather than single-site slips):
"""+"\n".join(earlier))
