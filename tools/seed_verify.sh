#!/bin/bash
# tools/seed_verify.sh <mutdir> <prop> <seed-id> <demo-dest-relative-to-repo> <demo command...>
# Confirms an externally produced property-breaking change: demo passes on the clean tree, the
# repository's own tests pass with the change, the demo fails with the change; then runs the
# quick check of <prop> against a scratch worktree with the change applied and records everything
# in /verif/seeded/<seed-id>/.
set -u
mut=$1; prop=$2; sid=$3; dest=$4; shift 4
export GOFLAGS=-mod=mod GOPROXY=off GOSUMDB=off GOTOOLCHAIN=local
wt=/tmp/sv-$sid
out=/tmp/svout-$sid
rm -rf "$out"; mkdir -p "$out"
git -C /repo worktree remove --force "$wt" 2>/dev/null
git -C /repo worktree add -q --detach "$wt" HEAD || exit 2
demo=$(ls "$mut" | grep -v -e patch.diff -e DEMO.txt -e DEMO.json -e NOTES.txt | head -1)
mkdir -p "$wt/$(dirname "$dest")"
cp "$mut/$demo" "$wt/$dest"
(cd "$wt" && eval "$@") > "$out/demo_clean.log" 2>&1; demo_clean=$?
rm -f "$wt/$dest"
if ! (cd "$wt" && git apply "$mut/patch.diff" 2>/dev/null); then
  # the pinned tree has since received fix: commits; re-base the change onto the current tree
  (cd "$wt" && patch -p1 --fuzz=3 --no-backup-if-mismatch < "$mut/patch.diff" > "$out/patch_fuzz.log" 2>&1) || { echo "patch does not apply (even with fuzz)"; git -C /repo worktree remove --force "$wt"; exit 2; }
  (cd "$wt" && find . -name "*.orig" -delete; git diff) > "$out/rebased.diff"
  echo "patch re-based onto current tree"
fi
( (cd "$wt" && go build ./... && go test -vet=off -count=1 ./...) && (cd "$wt/cmd/participle" && go test -vet=off -count=1 ./...) ) > "$out/suite.log" 2>&1; suite=$?
cp "$mut/$demo" "$wt/$dest"
(cd "$wt" && eval "$@") > "$out/demo_mut.log" 2>&1; demo_mut=$?
rm -f "$wt/$dest"
checks=${SEED_CHECKS:-$prop}
declare -A res
for p in $checks; do
  VERIF_REPO="$wt" VERIF_OUT="$out" /verif/run check "$p" quick > "$out/check_$p.log" 2>&1; rc=$?
  n=$(grep -c "^VIOLATION property=$p" "$out/check_$p.log")
  res[$p]="rc=$rc violations_printed=$n"
  echo "check $p: rc=$rc VIOLATION lines=$n"
done
git -C /repo worktree remove --force "$wt"
tag=$(echo "$wt" | md5sum | cut -c1-8); rm -rf /verif/build/bin-$tag /verif/build/tmp/go-$tag.* /verif/build/tmp/instr-$tag /verif/build/tmp/exoverlay-$tag
echo "demo_clean=$demo_clean (want 0) suite=$suite (want 0) demo_mut=$demo_mut (want !=0)"
d=/verif/seeded/$sid
mkdir -p "$d"
if [ -s "$out/rebased.diff" ]; then cp "$out/rebased.diff" "$d/patch.diff"; cp "$mut/patch.diff" "$d/patch.orig-pin.diff"; else cp "$mut/patch.diff" "$d/patch.diff"; fi; cp "$mut/$demo" "$d/$demo"; [ -f "$mut/NOTES.txt" ] && cp "$mut/NOTES.txt" "$d/NOTES.txt"
{
 echo "{"
 echo " \"seed_id\": \"$sid\", \"property\": \"$prop\","
 echo " \"demo_file\": \"$demo\", \"demo_dest\": \"$dest\", \"demo_cmd\": $(printf '%s' "$*" | jq -Rs .),"
 echo " \"demo_on_clean_tree_exit\": $demo_clean, \"repo_test_suite_with_change_exit\": $suite, \"demo_with_change_exit\": $demo_mut,"
 echo " \"needs\": $( (cat "$mut/NOTES.txt" 2>/dev/null || echo "") | jq -Rs .),"
 echo " \"checks_run\": {"
 first=1
 for p in $checks; do [ $first = 1 ] || echo ","; first=0; printf '  "%s": "%s; last line: %s"' "$p" "${res[$p]}" "$(grep -v '^VIOLATION' "$out/check_$p.log" | tail -1 | tr -d '"\\')"; done
 echo
 echo " },"
 echo " \"what_was_run\": \"tools/seed_verify.sh: demo on clean worktree; git apply patch.diff; go build + full test suite (root + cmd/participle); demo with change; ./run check <prop> quick with VERIF_REPO=<scratch worktree>\""
 echo "}"
} > "$d/meta.json"
jq . "$d/meta.json" > /dev/null || echo "meta.json invalid"
