#!/usr/bin/env python3
# Regenerates the "Detection log" section of DESIGN.md from /verif/seeded/*/meta.json
import json,glob,os,re
rows=[]
for d in sorted(glob.glob('/verif/seeded/*')):
    m=json.load(open(d+'/meta.json'))
    needs=(m.get('needs') or '').strip().split('\n')[0]
    needs=re.sub(r'\s+',' ',needs)[:260]
    caught=[];missed=[]
    for p,r in m['checks_run'].items():
        (caught if 'rc=1' in r and 'violations_printed=0' not in r else missed).append(p)
    ok = m['demo_on_clean_tree_exit']==0 and m['repo_test_suite_with_change_exit']==0 and m['demo_with_change_exit']!=0
    rows.append((m['seed_id'],m['property'],'yes' if ok else 'NO',', '.join(caught) or '-',', '.join(missed) or '-',needs))
out=['| seed | property | confirmed (demo passes clean, suite passes with change, demo fails with change) | caught by quick check of | run but not caught by | what the change is / needs |','|---|---|---|---|---|---|']
for r in rows: out.append('| '+' | '.join(r)+' |')
s=open('/verif/DESIGN.md').read()
marker='## Detection log (property-breaking changes applied to scratch copies and the check\'s verdict)'
i=s.index(marker)
head=s[:i]+marker+'\n\n'
intro=open('/verif/tools/detlog_intro.md').read() if os.path.exists('/verif/tools/detlog_intro.md') else ''
open('/verif/DESIGN.md','w').write(head+intro+'\n'.join(out)+'\n')
print(len(rows),'seeds')
