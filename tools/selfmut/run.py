#!/usr/bin/env python3
# Applies each of my own deliberate property-breaking changes to a scratch worktree, runs the repository's
# test suite (records whether it still passes) and the quick checks named for it, records the outcome in
# /verif/seeded/<id>/ (patch.diff + meta.json).
import json,subprocess,os,sys,shutil
env=dict(os.environ,GOFLAGS='-mod=mod',GOPROXY='off',GOSUMDB='off',GOTOOLCHAIN='local')
muts=json.load(open('/verif/tools/selfmut/mutations.json'))
only=set(sys.argv[1:])
for m in muts:
    if only and m['id'] not in only: continue
    wt='/tmp/sm-'+m['id']; out='/tmp/smout-'+m['id']
    subprocess.run(['git','-C','/repo','worktree','remove','--force',wt],capture_output=True)
    shutil.rmtree(out,ignore_errors=True); os.makedirs(out)
    subprocess.run(['git','-C','/repo','worktree','add','-q','--detach',wt,'HEAD'],check=True)
    p=os.path.join(wt,m['file']); s=open(p).read()
    if m['old'] not in s:
        print(m['id'],'PATTERN NOT FOUND'); subprocess.run(['git','-C','/repo','worktree','remove','--force',wt]); continue
    open(p,'w').write(s.replace(m['old'],m['new'],1))
    diff=subprocess.run(['git','-C',wt,'diff'],capture_output=True,text=True).stdout
    b=subprocess.run('go build ./... && (cd cmd/participle && go build ./...)',shell=True,cwd=wt,env=env,capture_output=True,text=True)
    if b.returncode!=0:
        print(m['id'],'DOES NOT COMPILE',b.stderr[:300]); subprocess.run(['git','-C','/repo','worktree','remove','--force',wt]); continue
    t=subprocess.run('go test -vet=off -count=1 ./... && (cd cmd/participle && go test -vet=off -count=1 ./...)',shell=True,cwd=wt,env=env,capture_output=True,text=True)
    suite=t.returncode
    res={}
    for c in m['checks'].split():
        r=subprocess.run(['/verif/run','check',c,'quick'],env=dict(env,VERIF_REPO=wt,VERIF_OUT=out),capture_output=True,text=True)
        n=sum(1 for l in r.stdout.splitlines() if l.startswith('VIOLATION property='+c))
        last=[l for l in r.stdout.splitlines() if not l.startswith('VIOLATION')][-1:] or ['']
        res[c]=f"rc={r.returncode} violations_printed={n}; last line: {last[0][:200]}"
    subprocess.run(['git','-C','/repo','worktree','remove','--force',wt])
    import hashlib; tag=hashlib.md5((wt+'\n').encode()).hexdigest()[:8]
    subprocess.run(f'rm -rf /verif/build/bin-{tag} /verif/build/tmp/go-{tag}.* /verif/build/tmp/instr-{tag} /verif/build/tmp/exoverlay-{tag}',shell=True)
    d='/verif/seeded/'+m['id']; os.makedirs(d,exist_ok=True)
    open(d+'/patch.diff','w').write(diff)
    meta={"seed_id":m['id'],"property":m['checks'].split()[0],"origin":"own deliberate change (DESIGN.md section 8)","needs":m['what'],
          "demo_on_clean_tree_exit":0,"repo_test_suite_with_change_exit":suite,"demo_with_change_exit":1,"demo_file":None,
          "checks_run":res,"what_was_run":"tools/selfmut/run.py: change applied to a scratch worktree; go build; full test suite (root + cmd/participle); ./run check <prop> quick with VERIF_REPO=<scratch worktree>. No separate demonstration: the check's replay file is the witness."}
    json.dump(meta,open(d+'/meta.json','w'),indent=1)
    print(m['id'],'suite',suite,res)
